#!/bin/bash
# Rebuilds everything the checks need from /repo's current working tree.
# usage: build.sh [dev|asan]
set -euo pipefail
export CARGO_NET_OFFLINE=true
V=/verif
REPO=${VERIF_REPO:-/repo}
mode=${1:-dev}
mkdir -p $V/target $V/out $V/sim/loader-shadow
# 1. shadow manifest of the loader: the repo's own manifest with absolute paths
#    and a [lib] target pointing at the repo's main.rs
python3 - "$REPO" > $V/sim/loader-shadow/Cargo.toml.new <<'PY'
import re,sys
repo=sys.argv[1]
src=open(repo+'/crates/graphql-loader/Cargo.toml').read()
src=re.sub(r'path\s*=\s*"\.\./([^"]+)"', lambda m:'path = "%s/crates/%s"'%(repo,m.group(1)), src)
src=src.replace('[dependencies]', '[lib]\nname = "graphql_loader"\npath = "%s/crates/graphql-loader/src/main.rs"\n\n[dependencies]'%repo,1)
# dev-dependencies are not needed
src=re.sub(r'\[dev-dependencies\][^\[]*','',src)
print(src)
PY
if ! cmp -s $V/sim/loader-shadow/Cargo.toml.new $V/sim/loader-shadow/Cargo.toml; then
  mv $V/sim/loader-shadow/Cargo.toml.new $V/sim/loader-shadow/Cargo.toml
else rm $V/sim/loader-shadow/Cargo.toml.new; fi
if [ ! -f $V/sim/Cargo.lock ] || [ $REPO/Cargo.lock -nt $V/sim/Cargo.lock ]; then cp $REPO/Cargo.lock $V/sim/Cargo.lock; fi
# 2. the CLI binary through the repo's own manifest
cargo build --offline --manifest-path $REPO/Cargo.toml -p nitrogql-cli --target-dir $V/target/repo 2>$V/out/build-cli.log || { grep -E "^error" -A 14 $V/out/build-cli.log >&2; echo "HARNESS-ERROR: cli build failed" >&2; exit 2; }
# 3. simulator
if [ "$mode" = asan ]; then
  RUSTFLAGS="-Zsanitizer=address" cargo +nightly build --offline --manifest-path $V/sim/Cargo.toml --target-dir $V/target/sim-asan --target x86_64-unknown-linux-gnu 2>$V/out/build-sim-asan.log || { grep -E "^error" -A 14 $V/out/build-sim-asan.log >&2; echo "HARNESS-ERROR: asan sim build failed" >&2; exit 2; }
else
  cargo build --offline --manifest-path $V/sim/Cargo.toml --target-dir $V/target/sim 2>$V/out/build-sim.log || { grep -E "^error" -A 14 $V/out/build-sim.log >&2; echo "HARNESS-ERROR: sim build failed" >&2; exit 2; }
fi
# 4. shim
if [ ! -f $V/target/shim.so ] || [ $V/sim/shim/shim.c -nt $V/target/shim.so ]; then
  cc -O1 -g -fno-delete-null-pointer-checks -shared -fPIC -o $V/target/shim.so $V/sim/shim/shim.c -ldl 2>$V/out/build-shim.log || { cat $V/out/build-shim.log >&2; echo "HARNESS-ERROR: shim build failed" >&2; exit 2; }
fi
