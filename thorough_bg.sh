#!/bin/bash
# thorough_bg.sh <out-dir> [ids...]: thorough tier of the given checks on a private copy of the
# current binaries, evidence and replays redirected to <out-dir> (false-alarm control, not evidence)
out=$1; shift
ids=${@:-C13 C19 C18 C17 C08 C06 C20 C14}
rm -rf $out; mkdir -p $out/bin
(cd /verif && ./build.sh dev && ./build.sh asan) || { echo "build failed"; exit 2; }
cp /verif/target/sim/debug/nvsim $out/bin/nvsim
cp /verif/target/sim-asan/x86_64-unknown-linux-gnu/debug/nvsim $out/bin/nvsim-asan
cp /verif/target/repo/debug/nitrogql-cli $out/bin/nitrogql-cli
cp /verif/target/shim.so $out/bin/shim.so
export NVSIM_CLI=$out/bin/nitrogql-cli NVSIM_SHIM=$out/bin/shim.so NVSIM_ASAN_EXE=$out/bin/nvsim-asan
for id in $ids; do
  NVSIM_EVIDENCE_DIR=$out/ev NVSIM_OUT=$out/out $out/bin/nvsim check $id --tier thorough > $out/$id.log 2>&1
  echo "$id rc=$? $(grep -E 'nvsim: property.*exit' $out/$id.log)"
done
