#!/bin/bash
# multiseed.sh <from> <to> [ids...]: run the quick checks under several VERIF_SEED values on the current tree
# (evidence and replays go to a scratch directory, not to /verif/evidence)
from=$1; to=$2; shift 2
ids=${@:-C13 C19 C18 C17 C08 C06 C20 C14}
out=${MULTISEED_OUT:-/tmp/nv-multiseed}
mkdir -p $out
for s in $(seq $from $to); do
  for id in $ids; do
    r=$(VERIF_SEED=$s NVSIM_EVIDENCE_DIR=$out/ev NVSIM_OUT=$out/out /verif/target/sim/debug/nvsim check $id 2>&1 | grep -E "^VIOLATION|class=|HARNESS|nvsim: property.*exit" | cut -c1-300)
    echo "seed=$s $id :: $(echo "$r" | tr '\n' ' ')"
  done
done
