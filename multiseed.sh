#!/bin/bash
# multiseed.sh <from> <to> [ids...]: run the quick checks under several VERIF_SEED values.
# Works on a private copy of the current binaries (so that later rebuilds do not disturb it);
# evidence and replays go to a scratch directory, not to /verif/evidence.
from=$1; to=$2; shift 2
ids=${@:-C13 C19 C18 C17 C08 C06 C20 C14}
out=${MULTISEED_OUT:-/tmp/nv-multiseed}
rm -rf $out; mkdir -p $out/bin
# binaries of the current /repo working tree (a seeded-change test may have left mutated ones behind)
(cd /verif && ./build.sh dev && ./build.sh asan) || { echo "build failed"; exit 2; }
cp /verif/target/sim/debug/nvsim $out/bin/nvsim
cp /verif/target/sim-asan/x86_64-unknown-linux-gnu/debug/nvsim $out/bin/nvsim-asan
cp /verif/target/repo/debug/nitrogql-cli $out/bin/nitrogql-cli
cp /verif/target/shim.so $out/bin/shim.so
export NVSIM_CLI=$out/bin/nitrogql-cli NVSIM_SHIM=$out/bin/shim.so NVSIM_ASAN_EXE=$out/bin/nvsim-asan
for s in $(seq $from $to); do
  for id in $ids; do
    r=$(VERIF_SEED=$s NVSIM_EVIDENCE_DIR=$out/ev NVSIM_OUT=$out/out $out/bin/nvsim check $id 2>&1 | grep -E "^VIOLATION|^  class=|HARNESS|UNSTABLE|nvsim: property.*exit" | sed 's/ detail=.*//' | cut -c1-200)
    echo "seed=$s $id :: $(echo "$r" | tr '\n' ' ')"
  done
done
