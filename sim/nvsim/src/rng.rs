//! The only source of randomness in the simulator.
//!
//! `run_seed = mix(VERIF_SEED, engine, run_index)`; independent streams are forked
//! from a seed *by label*, never from the current state, so that shrinking one
//! part of a scenario (say, the fault list) does not reshuffle another (the
//! workload).  Nothing here reads a clock and logging never draws.

pub fn splitmix(x: &mut u64) -> u64 {
    *x = x.wrapping_add(0x9E37_79B9_7F4A_7C15);
    let mut z = *x;
    z = (z ^ (z >> 30)).wrapping_mul(0xBF58_476D_1CE4_E5B9);
    z = (z ^ (z >> 27)).wrapping_mul(0x94D0_49BB_1331_11EB);
    z ^ (z >> 31)
}

pub fn fnv(s: &str) -> u64 {
    let mut h: u64 = 0xcbf2_9ce4_8422_2325;
    for b in s.bytes() {
        h ^= b as u64;
        h = h.wrapping_mul(0x100_0000_01b3);
    }
    h
}

pub fn fnv_bytes(s: &[u8]) -> u64 {
    let mut h: u64 = 0xcbf2_9ce4_8422_2325;
    for b in s {
        h ^= *b as u64;
        h = h.wrapping_mul(0x100_0000_01b3);
    }
    h
}

pub fn mix(a: u64, b: u64) -> u64 {
    let mut x = a ^ b.rotate_left(32) ^ 0xD6E8_FEB8_6659_FD93;
    let r = splitmix(&mut x);
    r ^ splitmix(&mut x)
}

pub fn run_seed(verif_seed: u64, engine: &str, index: u64) -> u64 {
    mix(mix(verif_seed, fnv(engine)), index)
}

#[derive(Clone, Debug)]
pub struct Rng {
    seed: u64,
    s: [u64; 4],
}

impl Rng {
    pub fn new(seed: u64) -> Self {
        let mut x = seed;
        let s = [
            splitmix(&mut x),
            splitmix(&mut x),
            splitmix(&mut x),
            splitmix(&mut x),
        ];
        Rng { seed, s }
    }
    /// Independent stream derived from the *seed* (not the state) and a label.
    pub fn fork(&self, label: &str) -> Rng {
        Rng::new(mix(self.seed, fnv(label)))
    }
    pub fn fork_n(&self, label: &str, n: u64) -> Rng {
        Rng::new(mix(mix(self.seed, fnv(label)), n))
    }
    pub fn next_u64(&mut self) -> u64 {
        let s = &mut self.s;
        let result = s[1].wrapping_mul(5).rotate_left(7).wrapping_mul(9);
        let t = s[1] << 17;
        s[2] ^= s[0];
        s[3] ^= s[1];
        s[1] ^= s[2];
        s[0] ^= s[3];
        s[2] ^= t;
        s[3] = s[3].rotate_left(45);
        result
    }
    /// uniform in 0..n (n > 0)
    pub fn below(&mut self, n: usize) -> usize {
        debug_assert!(n > 0);
        (self.next_u64() % (n as u64)) as usize
    }
    /// uniform in lo..=hi
    pub fn range(&mut self, lo: usize, hi: usize) -> usize {
        lo + self.below(hi - lo + 1)
    }
    pub fn chance(&mut self, num: u32, den: u32) -> bool {
        (self.next_u64() % den as u64) < num as u64
    }
    pub fn pick<'a, T>(&mut self, xs: &'a [T]) -> &'a T {
        &xs[self.below(xs.len())]
    }
    pub fn shuffle<T>(&mut self, xs: &mut [T]) {
        for i in (1..xs.len()).rev() {
            let j = self.below(i + 1);
            xs.swap(i, j);
        }
    }
    /// weighted choice: returns index
    pub fn weighted(&mut self, weights: &[u32]) -> usize {
        let total: u32 = weights.iter().sum();
        let mut x = (self.next_u64() % total as u64) as u32;
        for (i, w) in weights.iter().enumerate() {
            if x < *w {
                return i;
            }
            x -= *w;
        }
        weights.len() - 1
    }
}
