//! A whole simulated project: schema + operation files + layout + config text.

use crate::wgen::{self, OpsOpts, SchemaOpts};
use crate::indep;
use crate::model::*;
use crate::rng::Rng;
use serde::{Deserialize, Serialize};
use serde_json::{Value, json};

#[derive(Clone, Debug, Serialize, Deserialize)]
pub struct ConfigModel {
    /// file name of the config relative to the project root
    pub file_name: String,
    /// pass `-c <path>` instead of relying on discovery
    pub explicit: bool,
    pub json: bool,
    /// schema globs as written
    pub schema_globs: Vec<String>,
    pub documents_globs: Vec<String>,
    /// write a one-element glob list as a plain string
    pub schema_as_string: bool,
    pub documents_as_string: bool,
    /// the `extensions.nitrogql.generate` object (camelCase keys), as JSON
    pub generate: Value,
    pub plugins: Vec<String>,
}

/// Parts of the configuration that the CLI invocation supplies through flags
/// (`--schema`, `--operation`, `--schema-output`) instead of, or on top of, the config file.
#[derive(Clone, Debug, Serialize, Deserialize, Default)]
pub struct FlagOverrides {
    /// no config file at all: everything comes from flags, the working directory is the root
    pub no_config: bool,
    pub schema: bool,
    pub operation: bool,
    pub schema_output: bool,
    /// the config file holds a decoy value for an overridden key (otherwise the key is absent)
    pub decoy: bool,
}

#[derive(Clone, Debug, Serialize, Deserialize)]
pub struct Project {
    pub schema: SchemaModel,
    pub ops: Vec<OpFileModel>,
    /// schema file paths relative to the project root, index = schema file index
    pub schema_paths: Vec<String>,
    /// absolute path of the directory that holds the config file ("project root")
    pub root: String,
    /// working directory of the CLI
    pub cwd: String,
    pub config: ConfigModel,
    /// extra files dropped into the tree (never matched by a glob), path relative to root
    pub extra_files: Vec<(String, String)>,
    /// "" / "sdl": GraphQL SDL files; "introspection": one `.json` file holding the result of
    /// the introspection query (`{"__schema": ..}`, optionally below `data`)
    #[serde(default)]
    pub schema_format: String,
    #[serde(default)]
    pub flags: FlagOverrides,
    /// files written with CRLF line endings: bit i = operation file i, bit 32+j = schema file j
    #[serde(default)]
    pub crlf: u64,
    /// a fragment name that two files (which no document brings together) both define
    #[serde(default)]
    pub collided_fragment: Option<String>,
    /// symbolic links of the layout: (link, target), absolute.  `root` and `cwd` are the paths as
    /// the user types them (through the link); every path returned by `abs()` is physical.
    #[serde(default)]
    pub links: Vec<(String, String)>,
}

#[derive(Clone, Debug, Default)]
pub struct ProjectOpts {
    pub schema: SchemaOpts,
    pub dangling_pct: u32,
    pub missing_pct: u32,
    pub repeats: bool,
    pub cycles: bool,
    /// always set schemaModuleSpecifier (E4)
    pub force_module_specifier: bool,
    /// allow documents living outside the config directory (`../shared/**`)
    pub outside_docs: bool,
    pub max_files: usize,
    pub closed_imports: bool,
    pub cover_fragments: bool,
    /// x/100 of the projects describe their schema by an introspection JSON file
    pub introspection_pct: u32,
    /// x/100 of the projects pass part of (or all of) their configuration as CLI flags
    pub flag_overrides_pct: u32,
    /// projects without any config file are allowed (the class does not need the config text)
    pub no_config_ok: bool,
    /// let fragments of files that no document brings together share a name
    pub fragment_name_collisions: bool,
    /// x/100 of the layouts are reached through a symbolic link
    pub symlinks_pct: u32,
}

pub const SANDBOX: &str = "/nvw";

impl Project {
    /// the physical location of `rel` (relative to the project root as the user types it)
    pub fn abs(&self, rel: &str) -> String {
        // like PathBuf::join: an absolute path replaces the base
        if rel.starts_with('/') {
            return indep::norm_with(rel, &self.links);
        }
        indep::norm_with(&format!("{}/{}", self.root, rel), &self.links)
    }
    /// `rel` below the project root as the user types it (lexical, through links)
    pub fn logical(&self, rel: &str) -> String {
        indep::norm_with(&format!("{}/{}", self.root, rel), &[])
    }
    pub fn config_path(&self) -> String {
        self.abs(&self.config.file_name)
    }
    pub fn introspection(&self) -> bool {
        self.schema_format == "introspection"
    }
    /// text of schema input i
    pub fn schema_text(&self, i: usize) -> String {
        if self.introspection() {
            // style knob: compact or pretty-printed, from the path-independent model size
            wgen::render_introspection(&self.schema, self.schema.types.len() % 2 == 0)
        } else {
            wgen::render_schema_file(&self.schema, i)
        }
    }
    pub fn schema_abs(&self, i: usize) -> String {
        self.abs(&self.schema_paths[i])
    }
    pub fn op_abs(&self, i: usize) -> String {
        self.abs(&self.ops[i].path)
    }
    pub fn gen_str(&self, key: &str) -> Option<String> {
        self.config.generate.get(key).and_then(|v| v.as_str()).map(String::from)
    }
    pub fn mode(&self) -> String {
        self.gen_str("mode").unwrap_or("with-loader-ts-5.0".into())
    }
    pub fn decl_ext(&self) -> &'static str {
        match self.mode().as_str() {
            "with-loader-ts-4.0" => "graphql.d.ts",
            "standalone-ts-4.0" => "graphql.ts",
            _ => "d.graphql.ts",
        }
    }
    /// absolute path of the declaration file generated for operation file i
    pub fn decl_abs(&self, i: usize) -> String {
        let p = self.op_abs(i);
        let stem = p.strip_suffix(".graphql").unwrap_or(&p);
        format!("{stem}.{}", self.decl_ext())
    }

    /// The full set of input files as (absolute path, text).
    pub fn files(&self) -> Vec<(String, String)> {
        let mut v = Vec::new();
        if !self.flags.no_config {
            v.push((self.config_path(), self.config_text()));
        }
        let eol = |crlf: bool, t: String| if crlf { t.replace('\n', "\r\n") } else { t };
        for i in 0..self.schema_paths.len() {
            v.push((self.schema_abs(i), eol(self.crlf >> (32 + i) & 1 == 1 && !self.introspection(), self.schema_text(i))));
        }
        for (i, f) in self.ops.iter().enumerate() {
            v.push((self.op_abs(i), eol(self.crlf >> i & 1 == 1, wgen::render_op_file(f))));
        }
        for (p, t) in &self.extra_files {
            v.push((self.abs(p), t.clone()));
        }
        v
    }

    pub fn config_value(&self) -> Value {
        self.config_value_with(&self.config.generate)
    }

    /// the config with another `generate` object (an earlier / other version of the same project)
    pub fn config_value_with(&self, generate: &Value) -> Value {
        let c = &self.config;
        let glob_val = |g: &Vec<String>, as_string: bool| -> Value {
            if as_string && g.len() == 1 { json!(g[0]) } else { json!(g) }
        };
        let mut nitro = serde_json::Map::new();
        if !c.plugins.is_empty() {
            nitro.insert("plugins".into(), json!(c.plugins));
        }
        let fl = &self.flags;
        let mut generate = generate.clone();
        if fl.schema_output && !fl.no_config {
            // the flag wins over whatever the file says
            if let Some(o) = generate.as_object_mut() {
                if fl.decoy {
                    o.insert("schemaOutput".into(), json!("zz-decoy/schema.d.ts"));
                } else {
                    o.remove("schemaOutput");
                }
            }
        }
        nitro.insert("generate".into(), generate);
        let mut top = serde_json::Map::new();
        if !(fl.schema && !fl.no_config) {
            top.insert("schema".into(), glob_val(&c.schema_globs, c.schema_as_string));
        } else if fl.decoy {
            top.insert("schema".into(), json!("./zz-decoy-schema/**/*.graphql"));
        }
        if !(fl.operation && !fl.no_config) {
            top.insert("documents".into(), glob_val(&c.documents_globs, c.documents_as_string));
        } else if fl.decoy {
            top.insert("documents".into(), json!(["./zz-decoy-ops/*.graphql"]));
        }
        top.insert("extensions".into(), json!({ "nitrogql": Value::Object(nitro) }));
        Value::Object(top)
    }

    pub fn config_text(&self) -> String {
        self.config_text_of(&self.config_value())
    }

    pub fn config_text_of(&self, v: &Value) -> String {
        if self.config.json {
            serde_json::to_string_pretty(v).unwrap() + "\n"
        } else {
            let mut s = String::new();
            yaml(v, 0, &mut s);
            s
        }
    }

    /// CLI flags that carry configuration (after the commands)
    pub fn flag_args(&self) -> Vec<String> {
        let fl = &self.flags;
        let mut a = Vec::new();
        if fl.schema || fl.no_config {
            for g in &self.config.schema_globs {
                a.push("--schema".into());
                a.push(g.clone());
            }
        }
        if fl.operation || fl.no_config {
            for g in &self.config.documents_globs {
                a.push("--operation".into());
                a.push(g.clone());
            }
        }
        if fl.schema_output || fl.no_config {
            if let Some(so) = self.gen_str("schemaOutput") {
                a.push("--schema-output".into());
                a.push(so);
            }
        }
        a
    }

    /// CLI arguments that select the config
    pub fn config_args(&self) -> Vec<String> {
        if self.flags.no_config {
            return vec![];
        }
        if self.config.explicit {
            let rel = indep::relative_spec(&format!("{}/x", self.cwd), &self.logical(&self.config.file_name));
            vec!["-c".into(), rel]
        } else {
            vec![]
        }
    }
}

fn rename_spreads(sel: &mut [SelItem], from: &str, to: &str) {
    for it in sel.iter_mut() {
        match it {
            SelItem::Spread { name, .. } => {
                if name == from {
                    *name = to.to_string();
                }
            }
            SelItem::Field { sel: Some(s), .. } => rename_spreads(s, from, to),
            SelItem::Inline { sel, .. } => rename_spreads(sel, from, to),
            _ => {}
        }
    }
}

/// Gives two fragments of different files the same name (and the same type condition) when no
/// document brings the two files together: fragment names only have to be unique per
/// document, not per project.  Returns the colliding name.
pub fn collide_fragment_names(ops: &mut [OpFileModel], rng: &mut Rng) -> Option<String> {
    let model: Vec<(String, Vec<ImportLine>, Vec<String>, bool)> = ops
        .iter()
        .map(|f| (format!("/{}", f.path), f.imports.clone(), f.defs.iter().filter(|d| d.is_fragment()).filter_map(|d| d.name().map(String::from)).collect(), true))
        .collect();
    let reach: Vec<std::collections::BTreeSet<usize>> = (0..ops.len())
        .map(|i| {
            let mut r = crate::e3::reference_closure(&model, i).reach;
            r.insert(i);
            r
        })
        .collect();
    let together = |f: usize, g: usize| reach.iter().any(|r| r.contains(&f) && r.contains(&g));
    let mut cands: Vec<(String, String)> = Vec::new();
    for (f, ff) in ops.iter().enumerate() {
        for (g, gf) in ops.iter().enumerate() {
            if f >= g || together(f, g) {
                continue;
            }
            for a in &ff.defs {
                for b in &gf.defs {
                    if let (OpDef::Fragment { name: an, on: ao, .. }, OpDef::Fragment { name: bn, on: bo, .. }) = (a, b) {
                        if ao == bo && an != bn {
                            cands.push((an.clone(), bn.clone()));
                        }
                    }
                }
            }
        }
    }
    if cands.is_empty() {
        return None;
    }
    let (keep, gone) = rng.pick(&cands).clone();
    // names are project-unique before this step, so a global rename of `gone` is exact
    for f in ops.iter_mut() {
        for imp in f.imports.iter_mut() {
            if let Some(ns) = imp.names.as_mut() {
                for n in ns.iter_mut() {
                    if *n == gone {
                        *n = keep.clone();
                    }
                }
            }
        }
        for d in f.defs.iter_mut() {
            match d {
                OpDef::Fragment { name, sel, .. } => {
                    if *name == gone {
                        *name = keep.clone();
                    }
                    rename_spreads(sel, &gone, &keep);
                }
                OpDef::Operation { sel, .. } => rename_spreads(sel, &gone, &keep),
            }
        }
    }
    Some(keep)
}

fn yaml_scalar(v: &Value) -> String {
    match v {
        Value::String(s) => {
            // quote everything that YAML could misread
            let plain_ok = !s.is_empty()
                && s.chars().all(|c| c.is_ascii_alphanumeric() || "/._-*@".contains(c))
                && !s.starts_with(['-', '*', '@'])
                && (!s.starts_with('.') || s.starts_with("./") || s.starts_with("../"))
                && !matches!(s.as_str(), "true" | "false" | "null" | "yes" | "no" | "on" | "off")
                && s.parse::<f64>().is_err();
            if plain_ok { s.clone() } else { serde_json::to_string(s).unwrap() }
        }
        other => other.to_string(),
    }
}

fn yaml(v: &Value, indent: usize, out: &mut String) {
    let pad = "  ".repeat(indent);
    match v {
        Value::Object(m) => {
            for (k, val) in m {
                match val {
                    Value::Object(o) if !o.is_empty() => {
                        out.push_str(&format!("{pad}{k}:\n"));
                        yaml(val, indent + 1, out);
                    }
                    Value::Array(a) if !a.is_empty() => {
                        out.push_str(&format!("{pad}{k}:\n"));
                        for item in a {
                            out.push_str(&format!("{pad}  - {}\n", yaml_scalar(item)));
                        }
                    }
                    Value::Object(_) => out.push_str(&format!("{pad}{k}: {{}}\n")),
                    Value::Array(_) => out.push_str(&format!("{pad}{k}: []\n")),
                    s => out.push_str(&format!("{pad}{k}: {}\n", yaml_scalar(s))),
                }
            }
        }
        _ => out.push_str(&format!("{pad}{}\n", yaml_scalar(v))),
    }
}

const YAML_NAMES: &[&str] = &["graphql.config.yaml", "graphql.config.yml", ".graphqlrc", ".graphqlrc.yaml", ".graphqlrc.yml"];
const JSON_NAMES: &[&str] = &["graphql.config.json", ".graphqlrc.json", ".graphqlrc"];

pub fn gen_project(rng: &mut Rng, o: &ProjectOpts) -> Project {
    let mut r_schema = rng.fork("schema");
    let mut r_ops = rng.fork("ops");
    let mut r_lay = rng.fork("layout");
    let mut r_cfg = rng.fork("config");

    let mut schema = wgen::gen_schema(&mut r_schema, &o.schema);
    // ---- configuration through flags (decided first: it constrains what the config can say)
    let mut r_flags = rng.fork("flags");
    let flag_choice: Option<usize> = (o.flag_overrides_pct > 0 && (r_flags.below(100) as u32) < o.flag_overrides_pct).then(|| r_flags.below(6));

    // ---- layout
    let depth = r_lay.below(3);
    let mut root = String::from(SANDBOX);
    let segs = ["proj", "app", "web", "pkg"];
    for _ in 0..=depth {
        root.push('/');
        root.push_str(*r_lay.pick(&segs));
    }
    let outside = o.outside_docs && r_lay.chance(1, 4);
    // operation directories
    let src = *r_lay.pick(&["src", "app", "client", "gql/ops"]);
    let mut dirs: Vec<String> = vec![src.to_string(), format!("{src}/a"), format!("{src}/a/b"), format!("{src}/c")];
    if outside {
        dirs.push("../shared".into());
        dirs.push("../shared/frag".into());
    }
    let schema_dir = *r_lay.pick(&["schema", "graphql/schema", "src-schema", "defs/a", "defs/a/b"]);
    let schema_names = ["base", "types", "extra"];
    let introspection = o.introspection_pct > 0 && (rng.fork("schema_format").below(100) as u32) < o.introspection_pct;
    let has_custom_scalars = schema.types.iter().any(|t| t.kind == Kind::Scalar);
    // without a config file the TypeScript types of custom scalars can only come from the SDL
    let flag_choice = if flag_choice == Some(0) && introspection && has_custom_scalars { Some(4) } else { flag_choice };
    let flag_choice = if flag_choice == Some(0) && !o.no_config_ok { Some(3) } else { flag_choice };
    let no_config = flag_choice == Some(0);
    schema.ts_type_directives = !introspection && (no_config || rng.fork("ts_type_directives").chance(1, 4));
    let scalar_types_in_config = !no_config && !(schema.ts_type_directives && rng.fork("ts_type_only").chance(1, 2));
    let schema_paths: Vec<String> = if introspection {
        vec![format!("{schema_dir}/{}.json", *rng.fork("schema_format_name").pick(&["schema", "introspection", "api.schema"]))]
    } else {
        (0..schema.n_files).map(|i| format!("{schema_dir}/{}.graphql", schema_names[i])).collect()
    };

    let ops = wgen::gen_ops(
        &mut r_ops,
        &schema,
        &OpsOpts {
            max_files: if o.max_files == 0 { 5 } else { o.max_files },
            min_files: 1,
            dangling_pct: o.dangling_pct,
            missing_pct: o.missing_pct,
            repeats: o.repeats,
            cycles: o.cycles,
            plain: o.schema.plain,
            closed_imports: o.closed_imports,
            cover_fragments: o.cover_fragments,
            name_collisions: false,
            mixed_wildcard: false,
            dirs: dirs.clone(),
        },
    );

    let mut ops = ops;
    let mut collided_fragment = None;
    if o.fragment_name_collisions {
        let mut r_col = rng.fork("fragment_name_collisions");
        if r_col.chance(3, 4) {
            collided_fragment = collide_fragment_names(&mut ops, &mut r_col);
        }
    }
    // ---- config
    let json = r_cfg.chance(1, 3);
    let explicit = r_cfg.chance(1, 4);
    let file_name = if explicit {
        if json { "conf/nitro.json".to_string() } else { "nitro-config.yaml".to_string() }
    } else if json {
        (*r_cfg.pick(JSON_NAMES)).to_string()
    } else {
        (*r_cfg.pick(YAML_NAMES)).to_string()
    };
    // with an explicit config in a sub directory, root_dir is that directory:
    // keep it simple and only use sub directories for the explicit JSON form
    let (root, cfg_file_name) = if explicit && json {
        (format!("{root}/conf"), "nitro.json".to_string())
    } else {
        (root, file_name)
    };
    let cwd = if explicit {
        if r_cfg.chance(1, 2) { SANDBOX.to_string() } else { indep::dirname(&root).to_string() }
    } else {
        root.clone()
    };
    let dot = if r_cfg.chance(1, 2) { "./" } else { "" };
    let sext = if introspection { "json" } else { "graphql" };
    let schema_globs: Vec<String> = match r_cfg.below(3) {
        0 => vec![format!("{dot}{schema_dir}/*.{sext}")],
        1 => vec![format!("{dot}{schema_dir}/**/*.{sext}")],
        _ => schema_paths.iter().map(|p| format!("{dot}{p}")).collect(),
    };
    let mut documents_globs: Vec<String> = match r_cfg.below(3) {
        0 => vec![format!("{dot}{src}/**/*.graphql")],
        1 => vec![format!("{dot}{src}/*.graphql"), format!("{dot}{src}/*/*.graphql"), format!("{dot}{src}/*/*/*.graphql")],
        _ => vec![format!("{src}/**/*.graphql")],
    };
    if outside {
        documents_globs.push("../shared/**/*.graphql".into());
    }
    // overlapping patterns: one of the files is also named on its own, before or after the
    // wildcard pattern that matches it anyway (it is one input, loaded once)
    let mut schema_globs = schema_globs;
    {
        let mut r_ov = rng.fork("overlapping_patterns");
        if r_ov.chance(1, 8) && !schema_paths.is_empty() && schema_globs.iter().any(|g| g.contains('*')) {
            let p = format!("{dot}{}", r_ov.pick(&schema_paths[..]));
            if r_ov.chance(1, 2) { schema_globs.insert(0, p) } else { schema_globs.push(p) }
        }
        if r_ov.chance(1, 8) && ops.len() >= 2 {
            let f = &ops[r_ov.below(ops.len())].path;
            if !f.starts_with("..") {
                let p = format!("{dot}{f}");
                if r_ov.chance(1, 2) { documents_globs.insert(0, p) } else { documents_globs.push(p) }
            }
        }
    }

    let mode = *r_cfg.pick(&["with-loader-ts-5.0", "with-loader-ts-4.0", "standalone-ts-4.0"]);
    let mut g = serde_json::Map::new();
    if r_cfg.chance(3, 4) {
        g.insert("mode".into(), json!(mode));
    }
    // (directories that share a component name with the inputs at the same depth: `out/a` vs `src/a`)
    // (also: directories that differ from an input directory only in letter case - distinct
    // directories on the case-sensitive file systems nitrogql runs on)
    let src_upper = src.to_uppercase();
    let src_upper_gen = format!("{}/generated", src.to_uppercase());
    let schema_case_gen = format!("{}/generated", {
        let mut c = schema_dir.chars();
        match c.next() {
            Some(f) => f.to_uppercase().collect::<String>() + c.as_str(),
            None => String::new(),
        }
    });
    let out_dir: &str = *r_cfg.pick(&[
        "generated", "src/generated", "out/deep/er", ".", "../gen-out", "src", "out/a", "gen/a/b", "out/c",
        src_upper.as_str(), src_upper_gen.as_str(), schema_case_gen.as_str(),
        // hidden directories (outputs only: the glob library does not descend into them)
        ".nitrogql", ".cache/gql/types",
    ]);
    // symlinked layout: the first directory below the sandbox root is a link to a directory one
    // level deeper (`/nvw/app -> /nvw/zz-real/app`), as with pnpm stores, `current -> releases/N`
    // deployments or a home directory on another volume.  `..` out of the link is then a
    // different place for the kernel than for a lexical normaliser.
    let symlinked = o.symlinks_pct > 0 && !outside && (rng.fork("symlinks").below(100) as u32) < o.symlinks_pct;
    let out_dir = if out_dir == "../gen-out" && depth == 0 && !symlinked { "gen-out" } else { out_dir };
    let sch_name = *r_cfg.pick(&[
        "schema.d.ts",
        "schema.ts",
        "types/schema.d.ts",
        "schema.d.mts",
        "graphql.schema.ts",
        "schema.generated.d.ts",
        "schema.gen.mts",
        "api.v2.d.cts",
        "schema.tsx",
        "schema.cts",
    ]);
    let emit_runtime = r_cfg.chance(1, 6);
    let sch_name = if emit_runtime { "schema.ts" } else { sch_name };
    let with_schema_output = !o.force_module_specifier || r_cfg.chance(1, 2);
    // outputs may also be configured as absolute paths
    let abs_out = r_cfg.chance(1, 8);
    let place = |dir: &str, name: &str, root: &str| -> String {
        let rel = indep::norm(&format!("{dir}/{name}"));
        if abs_out { indep::norm(&format!("{root}/{rel}")) } else { rel }
    };
    if with_schema_output {
        g.insert("schemaOutput".into(), json!(place(out_dir, sch_name, &root)));
    }
    if o.force_module_specifier || r_cfg.chance(1, 4) {
        g.insert("schemaModuleSpecifier".into(), json!("@/generated/schema"));
    }
    if with_schema_output && r_cfg.chance(1, 3) {
        // the resolvers file gets its own directory half of the time
        let res_dir = if r_cfg.chance(1, 2) { out_dir } else { *r_cfg.pick(&["generated", "src/server", "../server-out", "deep/er/still", "."]) };
        let res_dir = if res_dir == "../server-out" && depth == 0 && !symlinked { "server-out" } else { res_dir };
        g.insert("resolversOutput".into(), json!(place(res_dir, "resolvers.d.ts", &root)));
    }
    if r_cfg.chance(1, 3) {
        g.insert("serverGraphqlOutput".into(), json!(indep::norm(&format!("{out_dir}/server-graphql.ts"))));
    }
    if emit_runtime {
        g.insert("emitSchemaRuntime".into(), json!(true));
    }
    // type
    let mut ty = serde_json::Map::new();
    let mut st = serde_json::Map::new();
    for t in schema.types.iter().filter(|t| t.kind == Kind::Scalar && scalar_types_in_config) {
        let v = match r_cfg.below(3) {
            0 => json!("string"),
            1 => json!({"send": "string | Date", "receive": "string"}),
            _ => json!({"resolverInput": "string", "resolverOutput": "Date | string", "operationInput": "string", "operationOutput": "string"}),
        };
        st.insert(t.name.clone(), v);
    }
    if r_cfg.chance(1, 3) {
        st.insert("ID".into(), json!("string"));
    }
    if !st.is_empty() {
        ty.insert("scalarTypes".into(), Value::Object(st));
    }
    if r_cfg.chance(1, 3) {
        ty.insert("allowUndefinedAsOptionalInput".into(), json!(r_cfg.chance(1, 2)));
    }
    if !ty.is_empty() {
        g.insert("type".into(), Value::Object(ty));
    }
    // name
    let mut name = serde_json::Map::new();
    for (k, vals) in [
        ("operationResultTypeSuffix", &["Result", "Res", ""][..]),
        ("variablesTypeSuffix", &["Variables", "Vars"][..]),
        ("fragmentTypeSuffix", &["", "Fragment", "Doc"][..]),
        ("queryVariableSuffix", &["Query", "Q", ""][..]),
        ("mutationVariableSuffix", &["Mutation", "M"][..]),
        ("subscriptionVariableSuffix", &["Subscription", "Sub"][..]),
        ("fragmentVariableSuffix", &["", "Doc", "Fragment"][..]),
    ] {
        if r_cfg.chance(1, 4) {
            name.insert(k.into(), json!(*r_cfg.pick(vals)));
        }
    }
    if r_cfg.chance(1, 3) {
        name.insert("capitalizeOperationNames".into(), json!(r_cfg.chance(1, 2)));
    }
    if !name.is_empty() {
        g.insert("name".into(), Value::Object(name));
    }
    // export
    let mut export = serde_json::Map::new();
    for k in ["defaultExportForOperation", "operationResultType", "variablesType"] {
        if r_cfg.chance(1, 3) {
            export.insert(k.into(), json!(r_cfg.chance(1, 2)));
        }
    }
    if !export.is_empty() {
        g.insert("export".into(), Value::Object(export));
    }
    let plugins = if r_cfg.chance(1, 5) { vec!["nitrogql:model-plugin".to_string()] } else { vec![] };
    // (plugins extend an SDL schema; an introspection result cannot carry their directives)
    let plugins = if introspection || no_config { vec![] } else { plugins };
    let mut plugins = plugins;
    if !plugins.is_empty() {
        let mut r_pl = rng.fork("plugins");
        // the other built-in plugin next to it (it only acts on schemas given as JavaScript modules)
        if r_pl.chance(1, 3) {
            plugins.insert(r_pl.below(2), "nitrogql:graphql-scalars-plugin".to_string());
        }
        // use the model plugin's directive: on whole objects (with a type) or on single fields
        let roots = [Some(schema.query.clone()), schema.mutation.clone(), schema.subscription.clone()];
        for t in schema.types.iter_mut().filter(|t| t.kind == Kind::Object && !roots.contains(&Some(t.name.clone()))) {
            match r_pl.below(4) {
                0 if t.directive.is_none() => t.directive = Some("model:object".into()),
                1 => {
                    let head = t.fields.len() - t.ext_tail.min(t.fields.len());
                    for f in t.fields.iter_mut().take(head) {
                        if f.directive.is_none() && r_pl.chance(1, 3) {
                            f.directive = Some("model".into());
                        }
                    }
                }
                _ => {}
            }
        }
    }

    let mut extra_files = Vec::new();
    if r_lay.chance(1, 3) {
        extra_files.push(("README.md".to_string(), "# not part of the project\n".to_string()));
    }
    if r_lay.chance(1, 4) {
        extra_files.push((format!("{src}/notes.txt"), "scratch\n".to_string()));
    }

    // ---- configuration through flags
    let mut flags = FlagOverrides::default();
    let mut g = g;
    let mut cwd = cwd;
    let mut plugins = plugins;
    if let Some(choice) = flag_choice {
        match choice {
            0 => {
                // no config file: only what flags can say (defaults for the rest), cwd is the root
                flags.no_config = true;
                let so = g.get("schemaOutput").cloned();
                g = serde_json::Map::new();
                if let Some(so) = so {
                    g.insert("schemaOutput".into(), so);
                }
                plugins = vec![];
                cwd = root.clone();
            }
            1 => flags.schema = true,
            2 => flags.operation = true,
            3 => flags.schema_output = g.contains_key("schemaOutput"),
            _ => {
                flags.schema = true;
                flags.operation = true;
                flags.schema_output = g.contains_key("schemaOutput") && r_flags.chance(1, 2);
            }
        }
        flags.decoy = r_flags.chance(1, 2);
    }
    // line endings: one project in six was (partly) edited on Windows
    let mut r_eol = rng.fork("eol");
    let crlf: u64 = if r_eol.chance(1, 6) { if r_eol.chance(1, 2) { u64::MAX } else { r_eol.next_u64() } } else { 0 };
    let links = if symlinked {
        let first = root[SANDBOX.len() + 1..].split('/').next().unwrap_or("").to_string();
        vec![(format!("{SANDBOX}/{first}"), format!("{SANDBOX}/zz-real/{first}"))]
    } else {
        vec![]
    };
    Project {
        links,
        collided_fragment,
        crlf,
        flags,
        schema,
        ops,
        schema_paths,
        root,
        cwd,
        config: ConfigModel {
            file_name: cfg_file_name,
            explicit,
            json,
            schema_globs,
            documents_globs,
            schema_as_string: r_cfg.chance(1, 2),
            documents_as_string: r_cfg.chance(1, 2),
            generate: Value::Object(g),
            plugins,
        },
        extra_files,
        schema_format: if introspection { "introspection".into() } else { String::new() },
    }
}
