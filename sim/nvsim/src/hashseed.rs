//! Ownership of the one nondeterminism source inside the simulator process:
//! the SipHash keys of every `HashMap`/`HashSet` (std asks libc `getrandom` once
//! per thread).  Each simulated instance runs on a fresh thread whose keys are
//! derived from the scenario's hash seed.

use std::cell::Cell;

thread_local! {
    static HASH_SEED: Cell<Option<u64>> = const { Cell::new(None) };
}

#[cfg(all(feature = "hashseed", not(miri)))]
#[unsafe(no_mangle)]
pub unsafe extern "C" fn getrandom(buf: *mut u8, len: usize, flags: u32) -> isize {
    let seed = HASH_SEED.try_with(|s| s.get()).ok().flatten();
    match seed {
        Some(mut x) => {
            let mut i = 0;
            while i < len {
                let v = crate::rng::splitmix(&mut x).to_le_bytes();
                let n = (len - i).min(8);
                unsafe { std::ptr::copy_nonoverlapping(v.as_ptr(), buf.add(i), n) };
                i += n;
            }
            len as isize
        }
        None => unsafe { libc::syscall(libc::SYS_getrandom, buf, len, flags) as isize },
    }
}

/// Runs `f` on a fresh OS thread: fresh thread-locals in the linked nitrogql
/// code (`TASKS`, `RESULT`, `CONFIG`, current file index) = one fresh loader
/// instance, with hash keys derived from `hash_seed`.
pub fn on_fresh_instance<T: Send + 'static>(hash_seed: u64, f: impl FnOnce() -> T + Send + 'static) -> T {
    let h = std::thread::Builder::new()
        .stack_size(64 << 20)
        .spawn(move || {
            HASH_SEED.with(|s| s.set(Some(hash_seed)));
            f()
        })
        .expect("spawn");
    match h.join() {
        Ok(v) => v,
        Err(e) => std::panic::resume_unwind(e),
    }
}

/// Self-test helper: the iteration order of a small HashSet under the current thread's keys.
pub fn probe_order() -> Vec<u32> {
    let s: std::collections::HashSet<u32> = (0..16).collect();
    s.into_iter().collect()
}
