//! Riders on every successful simulated `generate`: source maps (C06) and path
//! referential integrity (C20), judged on the resulting tree with independent
//! readers (VLQ decoder, GraphQL lexer, path normaliser, a tolerant scanner for
//! three TypeScript shapes).

use crate::e2::E2Scenario;
use crate::indep::{self, TokIndex};
use crate::model::Kind;
use crate::sandbox::Tree;
use crate::sim::RunReport;
use serde_json::Value;
use std::collections::{BTreeMap, BTreeSet};

#[derive(Debug, Clone)]
pub struct Seg {
    pub gen_line: usize,
    pub gen_col: usize,
    pub src: Option<(i64, i64, i64)>,
    pub name: Option<i64>,
}

pub fn decode_map(mappings: &str) -> Result<Vec<Seg>, String> {
    let raw = indep::vlq_decode_mappings(mappings)?;
    let mut out = Vec::new();
    let (mut si, mut sl, mut sc, mut ni) = (0i64, 0i64, 0i64, 0i64);
    for (gl, line) in raw.iter().enumerate() {
        let mut gc = 0i64;
        for f in line {
            if !(f.len() == 1 || f.len() == 4 || f.len() == 5) {
                return Err(format!("segment with {} fields on generated line {gl}", f.len()));
            }
            gc += f[0];
            if gc < 0 {
                return Err(format!("negative generated column on line {gl}"));
            }
            let mut seg = Seg { gen_line: gl, gen_col: gc as usize, src: None, name: None };
            if f.len() >= 4 {
                si += f[1];
                sl += f[2];
                sc += f[3];
                seg.src = Some((si, sl, sc));
            }
            if f.len() == 5 {
                ni += f[4];
                seg.name = Some(ni);
            }
            out.push(seg);
        }
    }
    Ok(out)
}

fn utf16_len(s: &str) -> usize {
    s.encode_utf16().count()
}

/// substring of `line` starting at UTF-16 column `col16`
fn at_col16(line: &str, col16: usize) -> Option<&str> {
    let mut c = 0;
    for (i, ch) in line.char_indices() {
        if c == col16 {
            return Some(&line[i..]);
        }
        c += ch.len_utf16();
    }
    if c == col16 { Some("") } else { None }
}

struct MapFile {
    /// absolute normalised paths of `sources`
    sources: Vec<String>,
    names: Vec<String>,
    segs: Vec<Seg>,
}

fn str_tree<'a>(t: &'a Tree, p: &str) -> Option<String> {
    t.get(p).map(|b| String::from_utf8_lossy(b).into_owned())
}

pub fn check_artifacts(sc: &E2Scenario, before: &Tree, after: &Tree, listed: &[String], rep: &mut RunReport) {
    let p = &sc.project;
    let schema_inputs: Vec<String> = sc.schema_inputs();
    let op_inputs: Vec<String> = sc.op_inputs();
    let graphql_inputs: BTreeSet<String> = schema_inputs.iter().chain(op_inputs.iter()).cloned().collect();
    let mut tok_cache: BTreeMap<String, TokIndex> = BTreeMap::new();
    let mut maps: BTreeMap<String, MapFile> = BTreeMap::new();

    for map_path in listed.iter().filter(|l| l.ends_with(".map")) {
        rep.probe("map_checked");
        let gen_path = map_path.strip_suffix(".map").unwrap().to_string();
        let (Some(map_text), Some(gen_text)) = (str_tree(after, map_path), str_tree(after, &gen_path)) else {
            rep.violate(&["C06"], "C06.1-map-or-generated-file-missing", format!("{map_path}: map or generated file missing"));
            continue;
        };
        // 1. shape
        let Ok(v) = serde_json::from_str::<Value>(&map_text) else {
            rep.violate(&["C06"], "C06.1-map-not-json", format!("{map_path} is not JSON"));
            continue;
        };
        let (Some(sources), Some(names), Some(mappings)) = (v["sources"].as_array(), v["names"].as_array(), v["mappings"].as_str()) else {
            rep.violate(&["C06"], "C06.1-map-shape", format!("{map_path}: sources/names/mappings missing or of the wrong type"));
            continue;
        };
        if v["version"] != 3 {
            rep.violate(&["C06"], "C06.1-map-shape", format!("{map_path}: version is {}", v["version"]));
        }
        let names: Vec<String> = names.iter().map(|n| n.as_str().unwrap_or("").to_string()).collect();
        // 3a/C20.2. every `sources` entry resolves, relative to the map, to a GraphQL input of the project
        let map_dir = indep::dirname(map_path).to_string();
        let root = v["sourceRoot"].as_str().unwrap_or("");
        let mut src_abs = Vec::new();
        for s in sources {
            let s = s.as_str().unwrap_or("");
            let rel = if root.is_empty() { s.to_string() } else { format!("{root}/{s}") };
            // (below a symbolic link a relative entry has two readings; either may hit the input)
            let cands = indep::resolve_candidates(map_path, &rel);
            let chosen = cands.iter().find(|c| graphql_inputs.contains(*c)).unwrap_or(&cands[0]).clone();
            src_abs.push(chosen);
        }
        let _ = &map_dir;
        // 7. the generated file's last line names the map next to it
        let last = gen_text.trim_end_matches('\n').rsplit('\n').next().unwrap_or("");
        let want = format!("//# sourceMappingURL={}", indep::basename(map_path));
        if last != want {
            rep.violate(&["C06", "C20"], "C06.7-sourcemappingurl", format!("{gen_path}: last line is {last:?}, expected {want:?}"));
        }
        // 2. decode
        let segs = match decode_map(mappings) {
            Ok(s) => s,
            Err(e) => {
                rep.violate(&["C06"], "C06.2-mappings-undecodable", format!("{map_path}: {e}"));
                continue;
            }
        };
        let gen_lines: Vec<&str> = gen_text.split('\n').collect();
        let mut prev: Option<(usize, usize)> = None;
        let mut prev_named: Option<(i64, i64, i64, usize)> = None; // (src, line, col, name len16)
        for s in &segs {
            // 2. ordered and inside the generated text
            if s.gen_line >= gen_lines.len() {
                rep.violate(&["C06"], "C06.2-generated-line-out-of-range", format!("{map_path}: segment on generated line {} of {}", s.gen_line, gen_lines.len()));
                break;
            }
            if s.gen_col > utf16_len(gen_lines[s.gen_line]) {
                rep.violate(
                    &["C06"],
                    "C06.2-generated-column-out-of-range",
                    format!("{map_path}: generated {}:{} beyond the line ({} units)", s.gen_line, s.gen_col, utf16_len(gen_lines[s.gen_line])),
                );
                break;
            }
            if let Some((pl, pc)) = prev {
                if pl == s.gen_line && s.gen_col < pc {
                    rep.violate(&["C06"], "C06.2-segments-unordered", format!("{map_path}: generated line {} column {} after column {pc}", s.gen_line, s.gen_col));
                    break;
                }
            }
            prev = Some((s.gen_line, s.gen_col));
            let Some((si, sl, scol)) = s.src else { continue };
            // 3. referenced source index exists
            if si < 0 || si as usize >= src_abs.len() {
                rep.violate(
                    &["C06"],
                    "C06.3-source-index-out-of-range",
                    format!("{map_path}: segment at generated {}:{} references source index {si}; sources has {} entries", s.gen_line, s.gen_col, src_abs.len()),
                );
                break;
            }
            let src_path = &src_abs[si as usize];
            // 3b / C20.2. a referenced entry resolves, relative to the map, to a GraphQL input
            if !graphql_inputs.contains(src_path) {
                rep.violate(
                    &["C06", "C20"],
                    "C20.2-map-source-not-an-input",
                    format!("{map_path}: referenced sources entry {:?} resolves to {src_path}, which is not a GraphQL input of the project", sources[si as usize]),
                );
                break;
            }
            let Some(src_text) = str_tree(before, src_path) else { continue };
            let idx = tok_cache.entry(src_path.clone()).or_insert_with(|| TokIndex::new(&src_text));
            // 4. original position inside the file, at a token start or closing the preceding named range
            if sl < 0 || scol < 0 || (sl as usize) >= idx.line_lens16.len() || (scol as usize) > idx.line_lens16[sl as usize] {
                rep.violate(&["C06"], "C06.4-original-position-outside-file", format!("{map_path}: original {sl}:{scol} is outside {src_path}"));
                break;
            }
            let tok = idx.at16(sl as usize, scol as usize);
            let closes = prev_named.is_some_and(|(psi, pl, pc, n)| psi == si && pl == sl && pc + n as i64 == scol);
            if tok.is_none() && !closes {
                rep.violate(
                    &["C06"],
                    "C06.4-original-position-not-token-start",
                    format!("{map_path}: original {src_path}:{sl}:{scol} is neither the start of a token nor the end of the preceding named range"),
                );
                break;
            }
            // 2b. a named segment starts at an identifier/keyword of the generated text
            if s.name.is_some() {
                let line = gen_lines[s.gen_line];
                let here = at_col16(line, s.gen_col).and_then(|r| r.chars().next());
                let before = if s.gen_col == 0 { None } else { at_col16(line, s.gen_col - 1).and_then(|r| r.chars().next()) };
                let is_id = |c: char| c.is_ascii_alphanumeric() || c == '_' || c == '$';
                let ok = here.is_some_and(|c| is_id(c) && !c.is_ascii_digit()) && !before.is_some_and(is_id);
                if !ok {
                    rep.violate(
                        &["C06"],
                        "C06.2-named-segment-not-at-identifier",
                        format!("{map_path}: named segment at generated {}:{} does not start at an identifier ({:?})", s.gen_line, s.gen_col, at_col16(line, s.gen_col).map(|r| r.chars().take(20).collect::<String>())),
                    );
                    break;
                }
            }
            // 5. name = the token at the original position
            if let Some(ni) = s.name {
                if ni < 0 || ni as usize >= names.len() {
                    rep.violate(&["C06"], "C06.5-name-index-out-of-range", format!("{map_path}: name index {ni} of {}", names.len()));
                    break;
                }
                let name = &names[ni as usize];
                match tok {
                    Some(t) if t.text == *name => {}
                    Some(t) => {
                        // the name of the definition whose keyword starts here
                        let heads = indep::scan_headers(&idx.toks);
                        let ok = heads.iter().any(|h| h.kw_line == t.line && h.kw_col == t.col && h.name.as_deref() == Some(name.as_str()));
                        if !ok {
                            rep.violate(
                                &["C06"],
                                "C06.5-name-mismatch",
                                format!("{map_path}: segment named {name:?} points at token {:?} ({src_path}:{sl}:{scol})", t.text),
                            );
                            break;
                        }
                    }
                    None => {
                        rep.violate(&["C06"], "C06.5-name-mismatch", format!("{map_path}: named segment {name:?} does not start at a token"));
                        break;
                    }
                }
                prev_named = Some((si, sl, scol, utf16_len(name)));
            }
        }
        maps.insert(map_path.clone(), MapFile { sources: src_abs, names, segs });
    }

    // ---- 6. every definition's generated identifier carries a segment into its header
    // schema declaration file
    let schema_out = p.gen_str("schemaOutput").map(|s| p.abs(&s));
    if p.introspection() {
        // no GraphQL source exists for the schema: the map of the schema declaration file has
        // nothing to point at (items 1-5 above still apply to it)
        rep.probe("schema_from_introspection");
    } else if let Some(so) = &schema_out {
        if let (Some(m), Some(gen_text)) = (maps.get(&format!("{so}.map")), str_tree(after, so)) {
            let gen_lines: Vec<&str> = gen_text.split('\n').collect();
            for t in &p.schema.types {
                if t.kind == Kind::Scalar {
                    continue;
                }
                let def_file = p.schema_abs(t.file);
                let Some(src_text) = str_tree(before, &def_file) else { continue };
                let idx = tok_cache.entry(def_file.clone()).or_insert_with(|| TokIndex::new(&src_text));
                let heads = indep::scan_headers(&idx.toks);
                let Some(h) = heads.iter().find(|h| !h.extend && h.name.as_deref() == Some(t.name.as_str()) && h.keyword != "fragment") else { continue };
                let name_tok = &idx.toks[h.tok];
                let hit = m.segs.iter().any(|s| {
                    s.src.is_some_and(|(si, sl, sc)| {
                        si >= 0
                            && (si as usize) < m.sources.len()
                            && m.sources[si as usize] == def_file
                            && ((sl as usize == name_tok.line && sc as usize == name_tok.col16) || (sl as usize == h.kw_line && sc as usize == h.kw_col))
                    }) && s.name.is_some_and(|n| n >= 0 && (n as usize) < m.names.len() && m.names[n as usize] == t.name)
                        && gen_lines.get(s.gen_line).and_then(|l| at_col16(l, s.gen_col)).is_some_and(|rest| rest.starts_with(t.name.as_str()))
                });
                if !hit {
                    rep.violate(
                        &["C06"],
                        "C06.6-schema-type-unmapped",
                        format!("{so}.map: no segment maps a generated identifier {:?} to its definition header at {def_file}:{}:{}", t.name, name_tok.line, name_tok.col),
                    );
                    break;
                }
                rep.probe("type_header_mapped");
            }
            // ... and every field of an object / input type: the property key in the declaration
            // carries a segment named after the field into the field's name token, whether the
            // field sits in the definition or in an `extend` piece (possibly in another file)
            'types: for t in &p.schema.types {
                if !(t.kind == Kind::Object || t.kind == Kind::Input) {
                    continue;
                }
                let head = t.fields.len() - t.ext_tail.min(t.fields.len());
                for (fi, f) in t.fields.iter().enumerate() {
                    let in_ext = fi >= head;
                    let def_file = p.schema_abs(if in_ext { t.ext_file } else { t.file });
                    let Some(src_text) = str_tree(before, &def_file) else { continue };
                    let idx = tok_cache.entry(def_file.clone()).or_insert_with(|| TokIndex::new(&src_text));
                    let heads = indep::scan_headers(&idx.toks);
                    let Some(hi) = heads.iter().position(|h| h.extend == in_ext && h.name.as_deref() == Some(t.name.as_str()) && h.keyword != "fragment") else { continue };
                    let end = heads.get(hi + 1).map(|n| n.tok).unwrap_or(idx.toks.len());
                    let decls = indep::scan_field_decls(&idx.toks, heads[hi].tok, end);
                    let Some((_, ti)) = decls.iter().find(|(n, _)| *n == f.name) else { continue };
                    let ft = &idx.toks[*ti];
                    let hit = m.segs.iter().any(|s| {
                        s.src.is_some_and(|(si, sl, sc)| si >= 0 && (si as usize) < m.sources.len() && m.sources[si as usize] == def_file && sl as usize == ft.line && sc as usize == ft.col16)
                            && s.name.is_some_and(|n| n >= 0 && (n as usize) < m.names.len() && m.names[n as usize] == f.name)
                            && gen_lines.get(s.gen_line).and_then(|l| at_col16(l, s.gen_col)).is_some_and(|rest| rest.starts_with(f.name.as_str()))
                    });
                    if !hit {
                        rep.violate(
                            &["C06"],
                            "C06.6-schema-field-unmapped",
                            format!("{so}.map: no segment maps a generated property {:?} of {:?} to the field's name at {def_file}:{}:{}", f.name, t.name, ft.line, ft.col),
                        );
                        break 'types;
                    }
                    rep.probe("field_mapped");
                }
            }
        }
    }
    // operation declaration files: own and imported definitions
    let files_model: Vec<(String, Vec<crate::model::ImportLine>, Vec<String>, bool)> = p
        .ops
        .iter()
        .enumerate()
        .map(|(i, f)| (p.op_abs(i), f.imports.clone(), f.defs.iter().filter(|d| d.is_fragment()).filter_map(|d| d.name().map(String::from)).collect(), true))
        .collect();
    for (i, f) in p.ops.iter().enumerate() {
        let decl = p.decl_abs(i);
        let (Some(m), Some(gen_text)) = (maps.get(&format!("{decl}.map")), str_tree(after, &decl)) else { continue };
        let gen_lines: Vec<&str> = gen_text.split('\n').collect();
        let reference = crate::e3::reference_closure(&files_model, i);
        let mut wanted: Vec<(String, String)> = f.defs.iter().filter_map(|d| d.name().map(|n| (p.op_abs(i), n.to_string()))).collect();
        for (fi, n) in &reference.imported {
            wanted.push((p.op_abs(*fi), n.clone()));
            rep.probe("imported_fragment_in_declaration");
        }
        // an anonymous operation has no name token: its generated identifiers map to its keyword
        if f.defs.iter().any(|d| !d.is_fragment() && d.name().is_none()) {
            let def_file = p.op_abs(i);
            if let Some(src_text) = str_tree(before, &def_file) {
                let idx = tok_cache.entry(def_file.clone()).or_insert_with(|| TokIndex::new(&src_text));
                let heads = indep::scan_headers(&idx.toks);
                if let Some(h) = heads.iter().find(|h| h.name.is_none() && matches!(h.keyword.as_str(), "query" | "mutation" | "subscription")) {
                    let hit = m.segs.iter().any(|s| {
                        s.src.is_some_and(|(si, sl, sc)| si >= 0 && (si as usize) < m.sources.len() && m.sources[si as usize] == def_file && sl as usize == h.kw_line && sc as usize == h.kw_col)
                    });
                    if !hit {
                        rep.violate(
                            &["C06"],
                            "C06.6-operation-definition-unmapped",
                            format!("{decl}.map: no segment leads to the anonymous operation at {def_file}:{}:{}", h.kw_line, h.kw_col),
                        );
                    }
                    rep.probe("anonymous_operation_mapped");
                }
            }
        }
        for (def_file, name) in wanted {
            let Some(src_text) = str_tree(before, &def_file) else { continue };
            let idx = tok_cache.entry(def_file.clone()).or_insert_with(|| TokIndex::new(&src_text));
            let heads = indep::scan_headers(&idx.toks);
            let Some(h) = heads.iter().find(|h| h.name.as_deref() == Some(name.as_str())) else { continue };
            let name_tok = &idx.toks[h.tok];
            let hit = m.segs.iter().any(|s| {
                s.src.is_some_and(|(si, sl, sc)| {
                    si >= 0
                        && (si as usize) < m.sources.len()
                        && m.sources[si as usize] == def_file
                        && ((sl as usize == name_tok.line && sc as usize == name_tok.col16) || (sl as usize == h.kw_line && sc as usize == h.kw_col))
                }) && gen_lines.get(s.gen_line).and_then(|l| at_col16(l, s.gen_col)).is_some()
            });
            if !hit {
                let class = if def_file == p.op_abs(i) { "C06.6-operation-definition-unmapped" } else { "C06.6-imported-fragment-unmapped" };
                rep.violate(
                    &["C06"],
                    class,
                    format!("{decl}.map: no segment leads to the header of {name:?} at {def_file}:{}:{}", name_tok.line, name_tok.col),
                );
                break;
            }
        }
    }

    // ---- C20.1: the schema import specifier of every operation declaration file / resolvers file
    let module_spec = p.gen_str("schemaModuleSpecifier");
    let mut decls: Vec<String> = (0..p.ops.len()).map(|i| p.decl_abs(i)).collect();
    if let Some(r) = p.gen_str("resolversOutput") {
        decls.push(p.abs(&r));
    }
    for d in decls {
        let Some(text) = str_tree(after, &d) else { continue };
        let Some(spec) = schema_import_specifier(&text) else {
            // standalone mode etc. always import the schema types; a file without the import is suspicious
            rep.violate(&["C20"], "C20.1-schema-import-missing", format!("{d}: no `import type * as Schema from \"...\"` line"));
            continue;
        };
        match (&module_spec, &schema_out) {
            (Some(ms), _) => {
                if spec != *ms {
                    rep.violate(&["C20"], "C20.1-schema-module-specifier", format!("{d}: imports {spec:?}, configured schemaModuleSpecifier is {ms:?}"));
                }
            }
            (None, Some(so)) => {
                if !(spec.starts_with("./") || spec.starts_with("../")) {
                    rep.violate(&["C20"], "C20.1-specifier-not-relative", format!("{d}: schema import specifier {spec:?} does not start with ./ or ../"));
                }
                let resolved_all = indep::resolve_candidates(&d, &spec);
                let resolved = resolved_all[0].clone();
                // invert the TS -> JS extension table
                let cands: Vec<String> = resolved_all.iter().flat_map(|r| js_to_ts_candidates(r)).collect();
                if !cands.iter().any(|c| c == so) {
                    rep.violate(
                        &["C20"],
                        "C20.1-schema-import-target",
                        format!("{d}: imports {spec:?} = {resolved}, which does not designate the schema output {so}"),
                    );
                }
                rep.probe("schema_specifier_resolved");
            }
            _ => {}
        }
    }
}

/// `import type * as Schema from "<spec>"`
pub fn schema_import_specifier(text: &str) -> Option<String> {
    for l in text.split('\n') {
        let t = l.trim();
        if t.starts_with("import") && t.contains("* as Schema") && t.contains(" from ") {
            let after = t.split(" from ").nth(1)?;
            let q = after.chars().next()?;
            if q == '"' || q == '\'' {
                let rest = &after[1..];
                return rest.find(q).map(|e| rest[..e].to_string());
            }
        }
    }
    None
}

/// TypeScript files that an import of `path` (with a JS extension) may designate.
fn js_to_ts_candidates(path: &str) -> Vec<String> {
    let mut v = vec![path.to_string()];
    for (js, tss) in [(".js", &[".d.ts", ".ts", ".tsx"][..]), (".cjs", &[".d.cts", ".cts"][..]), (".mjs", &[".d.mts", ".mts"][..])] {
        if let Some(stem) = path.strip_suffix(js) {
            for ts in tss {
                v.push(format!("{stem}{ts}"));
            }
        }
    }
    v
}
