//! Riders on every successful simulated `generate`: source maps (C06), path
//! referential integrity (C20).

use crate::e2::E2Scenario;
use crate::sandbox::Tree;
use crate::sim::RunReport;

pub fn check_artifacts(_sc: &E2Scenario, _before: &Tree, _after: &Tree, _listed: &[String], _rep: &mut RunReport) {}
