//! Orchestrator and worker protocol.
//!
//! `nvsim check ...` is the orchestrator: it starts worker processes
//! (`nvsim worker`), hands them run indices, collects reports, detects traps
//! (a worker that dies between BEGIN and END), minimises and replays
//! violations, and writes evidence.  Runs execute in workers because a panic
//! inside an `extern "C"` loader function aborts the whole process.

use crate::rng;
use serde::{Deserialize, Serialize};
use serde_json::{Value, json};
use std::collections::{BTreeMap, BTreeSet};
use std::io::{BufRead, BufReader, Write};
use std::process::{Child, ChildStdin, ChildStdout, Command, Stdio};
use std::sync::atomic::{AtomicBool, AtomicU64, Ordering};
use std::sync::{Arc, Mutex};
use std::time::{Duration, Instant};

#[derive(Clone, Debug, Serialize, Deserialize)]
pub struct Violation {
    /// property ids this violation counts against
    pub properties: Vec<String>,
    /// stable class: invariant id (+ site); used for minimisation and known-findings
    pub class: String,
    pub detail: String,
}

#[derive(Clone, Debug, Default, Serialize, Deserialize)]
pub struct RunReport {
    pub violations: Vec<Violation>,
    pub events: u64,
    pub faults: BTreeMap<String, u64>,
    pub probes: BTreeMap<String, u64>,
    pub signature: u64,
    pub nontrivial: bool,
    pub hash_seeds: Vec<u64>,
    pub sample: Option<Value>,
    /// hash over everything the run observed (call histories, exit codes, stdout, stderr,
    /// tree snapshots): two executions of one scenario must agree on it
    #[serde(default)]
    pub digest: u64,
}

impl RunReport {
    pub fn fault(&mut self, k: &str) {
        *self.faults.entry(k.to_string()).or_insert(0) += 1;
    }
    pub fn probe(&mut self, k: &str) {
        *self.probes.entry(k.to_string()).or_insert(0) += 1;
    }
    pub fn violate(&mut self, props: &[&str], class: &str, detail: String) {
        self.violations.push(Violation {
            properties: props.iter().map(|s| s.to_string()).collect(),
            class: class.to_string(),
            detail,
        });
    }
}

#[derive(Clone, Copy, Debug, PartialEq, Eq)]
pub enum Tier {
    Quick,
    Thorough,
}

pub trait Engine: Sync + Send {
    fn name(&self) -> &'static str;
    /// `seed -> Scenario`, pure.  `variant` selects a workload class of the engine.
    fn generate(&self, run_seed: u64, variant: &str, tier: Tier) -> Value;
    /// `Scenario x code -> report`, deterministic.
    fn execute(&self, scenario: &Value) -> RunReport;
    /// smaller candidate scenarios, most aggressive first
    fn shrink(&self, scenario: &Value) -> Vec<Value>;
}

// ------------------------------------------------------------------ worker side

fn install_panic_hook() {
    std::panic::set_hook(Box::new(|info| {
        let loc = info.location().map(|l| format!("{}:{}", l.file(), l.line())).unwrap_or_default();
        let msg = if let Some(s) = info.payload().downcast_ref::<&str>() {
            s.to_string()
        } else if let Some(s) = info.payload().downcast_ref::<String>() {
            s.clone()
        } else {
            String::new()
        };
        let msg: String = msg.chars().take(300).collect::<String>().replace('\n', " ");
        // stderr is a file owned by the orchestrator
        eprintln!("NVSIM-PANIC at {loc}: {msg}");
    }));
}

/// Worker main loop: one JSON request per line on stdin, one JSON answer per line on stdout.
pub fn worker_main(engines: &[Box<dyn Engine>]) {
    install_panic_hook();
    let stdin = std::io::stdin();
    let stdout = std::io::stdout();
    for line in stdin.lock().lines() {
        let Ok(line) = line else { break };
        if line.trim().is_empty() {
            continue;
        }
        let req: Value = serde_json::from_str(&line).expect("bad request");
        let engine = engines.iter().find(|e| e.name() == req["engine"].as_str().unwrap()).expect("engine");
        let scenario = match req["cmd"].as_str().unwrap() {
            "run" => {
                let tier = if req["tier"] == "thorough" { Tier::Thorough } else { Tier::Quick };
                engine.generate(req["seed"].as_u64().unwrap(), req["variant"].as_str().unwrap_or(""), tier)
            }
            "exec" => req["scenario"].clone(),
            other => panic!("unknown cmd {other}"),
        };
        {
            let mut o = stdout.lock();
            writeln!(o, "BEGIN").unwrap();
            o.flush().unwrap();
        }
        let report = engine.execute(&scenario);
        let mut o = stdout.lock();
        writeln!(o, "{}", serde_json::to_string(&json!({"report": report})).unwrap()).unwrap();
        o.flush().unwrap();
    }
}

// ------------------------------------------------------------------ orchestrator side

pub struct Worker {
    epoch: Instant,
    deadline: Arc<AtomicU64>,
    hung: Arc<AtomicBool>,
    stop: Arc<AtomicBool>,
    child: Child,
    stdin: ChildStdin,
    stdout: BufReader<ChildStdout>,
    stderr_path: String,
    pub id: usize,
}

#[derive(Clone)]
pub struct WorkerCfg {
    pub exe: String,
    pub env: Vec<(String, String)>,
    pub out_dir: String,
    /// prefix command (e.g. `unshare -m`) - empty for none
    pub wrap: Vec<String>,
}

pub enum ExecResult {
    Report(RunReport),
    /// worker died: (exit description, last panic line)
    Trap(String, String),
    /// no answer within the watchdog
    Hang,
}

static WORKER_COUNTER: AtomicU64 = AtomicU64::new(0);

impl Worker {
    pub fn spawn(cfg: &WorkerCfg) -> Worker {
        let id = WORKER_COUNTER.fetch_add(1, Ordering::SeqCst) as usize;
        let stderr_path = format!("{}/worker-{}-{}.stderr", cfg.out_dir, std::process::id(), id);
        let stderr = std::fs::File::create(&stderr_path).expect("stderr file");
        let mut cmd = if cfg.wrap.is_empty() {
            Command::new(&cfg.exe)
        } else {
            let mut c = Command::new(&cfg.wrap[0]);
            c.args(&cfg.wrap[1..]);
            c.arg(&cfg.exe);
            c
        };
        cmd.arg("worker").arg(id.to_string());
        for (k, v) in &cfg.env {
            cmd.env(k, v);
        }
        let mut child = cmd.stdin(Stdio::piped()).stdout(Stdio::piped()).stderr(stderr).spawn().expect("spawn worker");
        let stdin = child.stdin.take().unwrap();
        let stdout = BufReader::new(child.stdout.take().unwrap());
        let epoch = Instant::now();
        let deadline = Arc::new(AtomicU64::new(u64::MAX));
        let hung = Arc::new(AtomicBool::new(false));
        let stop = Arc::new(AtomicBool::new(false));
        {
            let (deadline, hung, stop) = (deadline.clone(), hung.clone(), stop.clone());
            let pid = child.id();
            std::thread::spawn(move || {
                while !stop.load(Ordering::SeqCst) {
                    let d = deadline.load(Ordering::SeqCst);
                    if d != u64::MAX && epoch.elapsed().as_millis() as u64 > d {
                        hung.store(true, Ordering::SeqCst);
                        unsafe { libc::kill(pid as i32, libc::SIGKILL) };
                        return;
                    }
                    std::thread::sleep(Duration::from_millis(50));
                }
            });
        }
        Worker { epoch, deadline, hung, stop, child, stdin, stdout, stderr_path, id }
    }

    fn last_panic(&self) -> String {
        let s = std::fs::read_to_string(&self.stderr_path).unwrap_or_default();
        // the first panic is the cause; "panic in a function that cannot unwind" follows it
        let mut last = String::new();
        for l in s.lines() {
            if l.starts_with("NVSIM-PANIC") || l.contains("ERROR: AddressSanitizer") {
                last = l.to_string();
                break;
            }
        }
        if last.is_empty() {
            last = s.lines().rev().take(3).collect::<Vec<_>>().join(" | ");
        }
        last
    }

    /// Sends one request and waits for the answer (with a watchdog).
    pub fn request(&mut self, req: &Value, watchdog: Duration) -> ExecResult {
        // truncate stderr log so that the last panic belongs to this request
        let _ = std::fs::File::create(&self.stderr_path);
        if writeln!(self.stdin, "{}", serde_json::to_string(req).unwrap()).is_err() || self.stdin.flush().is_err() {
            let st = self.child.wait().map(|s| s.to_string()).unwrap_or_default();
            return ExecResult::Trap(st, self.last_panic());
        }
        // the read happens on this thread; the worker's long-lived watchdog thread
        // kills the child when the deadline (ms since start) passes
        self.hung.store(false, Ordering::SeqCst);
        let deadline = self.epoch.elapsed().as_millis() as u64 + watchdog.as_millis() as u64;
        self.deadline.store(deadline, Ordering::SeqCst);
        let mut result = None;
        loop {
            let mut line = String::new();
            match self.stdout.read_line(&mut line) {
                Ok(0) | Err(_) => break,
                Ok(_) => {
                    let l = line.trim_end();
                    if l == "BEGIN" {
                        continue;
                    }
                    if let Ok(v) = serde_json::from_str::<Value>(l) {
                        if let Some(r) = v.get("report") {
                            result = serde_json::from_value::<RunReport>(r.clone()).ok();
                            break;
                        }
                    }
                }
            }
        }
        self.deadline.store(u64::MAX, Ordering::SeqCst);
        let hung = self.hung.clone();
        match result {
            Some(r) => ExecResult::Report(r),
            None => {
                let st = self.child.wait().map(|s| s.to_string()).unwrap_or_default();
                if hung.load(Ordering::SeqCst) { ExecResult::Hang } else { ExecResult::Trap(st, self.last_panic()) }
            }
        }
    }

    pub fn alive(&mut self) -> bool {
        matches!(self.child.try_wait(), Ok(None))
    }

    pub fn kill(mut self) {
        self.stop.store(true, Ordering::SeqCst);
        let _ = self.child.kill();
        let _ = self.child.wait();
        let _ = std::fs::remove_file(&self.stderr_path);
    }
}

/// One finding of a batch.
#[derive(Clone, Debug, Serialize, Deserialize)]
pub struct Finding {
    pub engine: String,
    pub variant: String,
    pub run_seed: u64,
    pub violation: Violation,
}

#[derive(Default)]
pub struct BatchStats {
    pub runs: u64,
    pub events: u64,
    pub faults: BTreeMap<String, u64>,
    pub probes: BTreeMap<String, u64>,
    pub signatures: BTreeSet<u64>,
    pub nontrivial_signatures: BTreeSet<u64>,
    pub hash_seeds: BTreeSet<u64>,
    pub samples: Vec<Value>,
    pub findings: Vec<Finding>,
    pub harness_errors: Vec<String>,
}

impl BatchStats {
    pub fn merge(&mut self, o: BatchStats) {
        self.runs += o.runs;
        self.events += o.events;
        for (k, v) in o.faults {
            *self.faults.entry(k).or_insert(0) += v;
        }
        for (k, v) in o.probes {
            *self.probes.entry(k).or_insert(0) += v;
        }
        self.signatures.extend(o.signatures);
        self.nontrivial_signatures.extend(o.nontrivial_signatures);
        self.hash_seeds.extend(o.hash_seeds);
        for s in o.samples {
            if self.samples.len() < 4 {
                self.samples.push(s);
            }
        }
        self.findings.extend(o.findings);
        self.harness_errors.extend(o.harness_errors);
    }
}

pub fn trap_violation(engine: &str, variant: &str, status: &str, panic_line: &str) -> Violation {
    // class = trap + panic site (file:line), message not included
    let site = panic_line
        .strip_prefix("NVSIM-PANIC at ")
        .map(|r| r.split(": ").next().unwrap_or("").to_string())
        .unwrap_or_else(|| {
            if panic_line.contains("AddressSanitizer") {
                let kind = panic_line.split("AddressSanitizer: ").nth(1).unwrap_or("").split_whitespace().next().unwrap_or("");
                format!("asan:{kind}")
            } else {
                format!("exit:{status}")
            }
        });
    // strip the absolute prefix of the repository so that the class is stable
    let site = site.replace("/repo/", "");
    let props: Vec<String> = trap_properties(engine, variant);
    Violation { properties: props, class: format!("trap@{site}"), detail: format!("{status}; {panic_line}") }
}

/// Which properties a trap counts against, by engine and workload class.
pub fn trap_properties(engine: &str, variant: &str) -> Vec<String> {
    let v: &[&str] = match (engine, variant) {
        ("e1", "c08") => &["C08"],
        ("e1", _) => &["C19", "C13"],
        ("e3", _) => &["C13"],
        ("e2", "c08") => &["C08", "C18"],
        ("e2", _) => &["C18", "C08"],
        ("e4", _) => &["C17"],
        _ => &[],
    };
    v.iter().map(|s| s.to_string()).collect()
}

/// Runs `n` scenarios of (engine, variant) on `workers` worker processes.
pub fn run_batch(
    cfg: &WorkerCfg,
    engine: &str,
    variant: &str,
    verif_seed: u64,
    tier: Tier,
    first_index: u64,
    n: u64,
    n_workers: usize,
    deadline: Option<Instant>,
    watchdog: Duration,
) -> BatchStats {
    let mut cfg = cfg.clone();
    if engine != "e2" {
        cfg.env.push(("NVSIM_NO_NS".into(), "1".into()));
    }
    let cfg = &cfg;
    // no batch runs longer than this, whatever happens to its workers
    let deadline = deadline.or(Some(Instant::now() + Duration::from_secs(if tier == Tier::Thorough { 4 * 3600 } else { 1200 })));
    let next = Arc::new(AtomicU64::new(first_index));
    let end = first_index + n;
    // circuit breaker: a change that makes many runs hang (each costs a full watchdog period) or
    // trap must not turn a check of minutes into one of hours - the property is violated already
    let hangs = Arc::new(AtomicU64::new(0));
    let findings_total = Arc::new(AtomicU64::new(0));
    // in-process engines answer within milliseconds
    // (cli-sim scenarios consist of up to some thousand CLI runs in the thorough tier, each with a
    // time limit of its own: the worker watchdog only has to catch a stuck simulator)
    let watchdog = if engine == "e2" {
        Duration::from_secs(if tier == Tier::Thorough { 1800 } else { 90 })
    } else {
        watchdog.min(Duration::from_secs(20))
    };
    let total = Arc::new(Mutex::new(BatchStats::default()));
    let mut handles = Vec::new();
    for _ in 0..n_workers {
        let (cfg, next, total) = (cfg.clone(), next.clone(), total.clone());
        let (engine, variant) = (engine.to_string(), variant.to_string());
        let (hangs, findings_total) = (hangs.clone(), findings_total.clone());
        handles.push(std::thread::spawn(move || {
            let mut st = BatchStats::default();
            let mut w = Worker::spawn(&cfg);
            loop {
                if let Some(d) = deadline {
                    if Instant::now() > d {
                        break;
                    }
                }
                if hangs.load(Ordering::SeqCst) >= 6 || findings_total.load(Ordering::SeqCst) >= 4000 {
                    *st.probes.entry("batch_stopped_early_after_many_violations".into()).or_insert(0) += 1;
                    break;
                }
                let i = next.fetch_add(1, Ordering::SeqCst);
                if i >= end {
                    break;
                }
                let seed = rng::run_seed(verif_seed, &format!("{engine}/{variant}"), i);
                let req = json!({"cmd": "run", "engine": engine, "variant": variant, "seed": seed,
                    "tier": if tier == Tier::Thorough { "thorough" } else { "quick" }});
                match w.request(&req, watchdog) {
                    ExecResult::Report(r) => {
                        st.runs += 1;
                        st.events += r.events;
                        for (k, v) in &r.faults {
                            *st.faults.entry(k.clone()).or_insert(0) += v;
                        }
                        for (k, v) in &r.probes {
                            *st.probes.entry(k.clone()).or_insert(0) += v;
                        }
                        st.signatures.insert(r.signature);
                        if r.nontrivial {
                            st.nontrivial_signatures.insert(r.signature);
                        }
                        st.hash_seeds.extend(r.hash_seeds.iter().copied());
                        if let Some(s) = r.sample {
                            if st.samples.len() < 2 {
                                st.samples.push(s);
                            }
                        }
                        findings_total.fetch_add(r.violations.len() as u64, Ordering::SeqCst);
                        for v in r.violations {
                            st.findings.push(Finding { engine: engine.clone(), variant: variant.clone(), run_seed: seed, violation: v });
                        }
                    }
                    ExecResult::Trap(status, line) => {
                        st.runs += 1;
                        findings_total.fetch_add(1, Ordering::SeqCst);
                        st.findings.push(Finding {
                            engine: engine.clone(),
                            variant: variant.clone(),
                            run_seed: seed,
                            violation: trap_violation(&engine, &variant, &status, &line),
                        });
                        w.kill();
                        w = Worker::spawn(&cfg);
                    }
                    ExecResult::Hang => {
                        st.runs += 1;
                        hangs.fetch_add(1, Ordering::SeqCst);
                        st.findings.push(Finding {
                            engine: engine.clone(),
                            variant: variant.clone(),
                            run_seed: seed,
                            violation: Violation {
                                properties: trap_properties(&engine, &variant),
                                class: "hang".into(),
                                detail: format!("no answer within {watchdog:?}"),
                            },
                        });
                        w.kill();
                        w = Worker::spawn(&cfg);
                    }
                }
            }
            w.kill();
            total.lock().unwrap().merge(st);
        }));
    }
    for h in handles {
        let _ = h.join();
    }
    Arc::try_unwrap(total).ok().unwrap().into_inner().unwrap()
}

/// Determinism self-test helper: runs the given run indices and returns, per index, a hash of
/// the complete report (violations, counters, digest of all observations).
pub fn run_collect(cfg: &WorkerCfg, engine: &str, variant: &str, verif_seed: u64, n: u64, n_workers: usize) -> BTreeMap<u64, u64> {
    let next = Arc::new(AtomicU64::new(0));
    let out = Arc::new(Mutex::new(BTreeMap::new()));
    let mut handles = Vec::new();
    for _ in 0..n_workers {
        let (cfg, next, out) = (cfg.clone(), next.clone(), out.clone());
        let (engine, variant) = (engine.to_string(), variant.to_string());
        handles.push(std::thread::spawn(move || {
            let mut w = Worker::spawn(&cfg);
            loop {
                let i = next.fetch_add(1, Ordering::SeqCst);
                if i >= n {
                    break;
                }
                let seed = rng::run_seed(verif_seed, &format!("{engine}/{variant}"), i);
                let req = json!({"cmd": "run", "engine": engine, "variant": variant, "seed": seed, "tier": "quick"});
                let h = match w.request(&req, Duration::from_secs(120)) {
                    ExecResult::Report(mut r) => {
                        r.sample = None;
                        rng::fnv(&serde_json::to_string(&r).unwrap())
                    }
                    ExecResult::Trap(st, line) => {
                        w.kill();
                        w = Worker::spawn(&cfg);
                        rng::fnv(&format!("trap {st} {}", trap_violation(&engine, &variant, &st, &line).class))
                    }
                    ExecResult::Hang => {
                        w.kill();
                        w = Worker::spawn(&cfg);
                        rng::fnv("hang")
                    }
                };
                out.lock().unwrap().insert(i, h);
            }
            w.kill();
        }));
    }
    for h in handles {
        let _ = h.join();
    }
    Arc::try_unwrap(out).ok().unwrap().into_inner().unwrap()
}

/// Executes one scenario in a fresh worker and returns the classes of violations
/// for `property` (traps included).
pub fn exec_once(cfg: &WorkerCfg, engine: &str, variant: &str, scenario: &Value, watchdog: Duration) -> Vec<Violation> {
    let mut cfg = cfg.clone();
    let mut watchdog = watchdog;
    if engine != "e2" {
        cfg.env.push(("NVSIM_NO_NS".into(), "1".into()));
        watchdog = watchdog.min(Duration::from_secs(20));
    } else {
        watchdog = watchdog.max(Duration::from_secs(90));
    }
    let mut w = Worker::spawn(&cfg);
    let req = json!({"cmd": "exec", "engine": engine, "scenario": scenario});
    let out = match w.request(&req, watchdog) {
        ExecResult::Report(r) => r.violations,
        ExecResult::Trap(status, line) => vec![trap_violation(engine, variant, &status, &line)],
        ExecResult::Hang => vec![Violation { properties: trap_properties(engine, variant), class: "hang".into(), detail: String::new() }],
    };
    w.kill();
    out
}

/// Delta-debugging style minimisation: keeps a candidate when the same class persists.
pub fn minimise(
    cfg: &WorkerCfg,
    engine: &dyn Engine,
    variant: &str,
    scenario: Value,
    class: &str,
    budget: Duration,
    watchdog: Duration,
) -> (Value, u64) {
    let start = Instant::now();
    let mut cur = scenario;
    let mut steps = 0u64;
    'outer: loop {
        if start.elapsed() > budget {
            break;
        }
        for cand in engine.shrink(&cur) {
            if start.elapsed() > budget {
                break 'outer;
            }
            let vs = exec_once(cfg, engine.name(), variant, &cand, watchdog);
            if vs.iter().any(|v| v.class == class) {
                cur = cand;
                steps += 1;
                continue 'outer;
            }
        }
        break;
    }
    (cur, steps)
}
