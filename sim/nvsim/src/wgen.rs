//! Workload generator: schema model, operation files with an import graph, and
//! rendering of both to GraphQL text.  `seed -> model` is a pure function.

use crate::indep;
use crate::model::*;
use crate::rng::Rng;
use std::collections::BTreeMap;

const OBJ_NAMES: &[&str] = &[
    "User", "Post", "Comment", "Tag", "Team", "Item", "Order", "Page", "Photo", "Event", "Group", "Label", "Album", "Track",
];
const IFACE_NAMES: &[&str] = &["Node", "Entity", "Named", "Stamped"];
const UNION_NAMES: &[&str] = &["SearchResult", "Feed", "Media", "Target"];
const ENUM_NAMES: &[&str] = &["Role", "Status", "Color", "SortDir"];
const ENUM_VALUES: &[&str] = &["ADMIN", "MEMBER", "GUEST", "OPEN", "CLOSED", "RED", "GREEN", "BLUE", "ASC", "DESC", "LOW", "HIGH"];
const INPUT_NAMES: &[&str] = &["UserFilter", "PostInput", "PageArgs", "RangeInput"];
const SCALAR_NAMES: &[&str] = &["DateTime", "URL", "BigInt", "Json"];
const FIELD_NAMES: &[&str] = &[
    "name", "title", "body", "count", "score", "createdAt", "url", "active", "email", "rank", "tags", "owner", "author", "items",
    "parent", "children", "status", "role", "kind", "size", "slug", "meta", "first", "last", "peer", "related",
    // legal GraphQL names that are reserved words elsewhere
    "default", "new", "delete", "typeof", "class",
];
const ARG_NAMES: &[&str] = &["first", "after", "filter", "order", "id", "q", "limit", "flag"];
const DESC_WORDS: &[&str] = &["the", "owner", "of", "item", "été", "naïve", "日本語", "größe", "list", "when", "null", "— dash", "ID", "créé"];

#[derive(Clone, Debug, Default)]
pub struct SchemaOpts {
    /// lots of entries in every table (C17)
    pub rich: bool,
    /// only the plainest constructs (C18 verdict clause)
    pub plain: bool,
}

fn desc(rng: &mut Rng) -> Option<String> {
    if !rng.chance(1, 3) {
        return None;
    }
    let n = rng.range(1, 4);
    let mut w = Vec::new();
    for _ in 0..n {
        w.push(*rng.pick(DESC_WORDS));
    }
    Some(w.join(" "))
}

fn pick_names(rng: &mut Rng, pool: &[&str], n: usize, suffix: &str) -> Vec<String> {
    let mut idx: Vec<usize> = (0..pool.len()).collect();
    rng.shuffle(&mut idx);
    idx.into_iter().take(n.min(pool.len())).map(|i| format!("{}{}", pool[i], suffix)).collect()
}

pub fn gen_schema(rng: &mut Rng, opts: &SchemaOpts) -> SchemaModel {
    let rich = opts.rich;
    let plain = opts.plain;
    let suffix = if rng.chance(1, 3) { format!("{}", rng.below(10)) } else { String::new() };
    let n_obj = if rich { rng.range(5, 8) } else { rng.range(2, 5) };
    let n_iface = if plain { rng.below(2) } else if rich { rng.range(1, 3) } else { rng.below(3) };
    let n_union = if plain { rng.below(2) } else if rich { rng.range(1, 2) } else { rng.below(3) };
    let n_enum = if rich { rng.range(2, 3) } else { rng.below(3) };
    let n_input = if plain { rng.below(2) } else if rich { rng.range(1, 3) } else { rng.below(3) };
    let n_scalar = if rich { rng.range(3, 4) } else { rng.below(3) };
    let n_files = rng.range(1, 3);

    let objs = pick_names(rng, OBJ_NAMES, n_obj, &suffix);
    let ifaces = pick_names(rng, IFACE_NAMES, n_iface, &suffix);
    let unions = pick_names(rng, UNION_NAMES, n_union, &suffix);
    let enums = pick_names(rng, ENUM_NAMES, n_enum, &suffix);
    let inputs = pick_names(rng, INPUT_NAMES, n_input, &suffix);
    let scalars = pick_names(rng, SCALAR_NAMES, n_scalar, "");

    let mut m = SchemaModel { n_files, ..Default::default() };

    // directive definitions
    let n_dir = if plain { 0 } else if rich { rng.range(3, 4) } else { rng.below(3) };
    for i in 0..n_dir {
        let arg = rng.chance(1, 2).then(|| ArgDef { name: "label".into(), ty: TypeRef::named("String", false) });
        m.directives.push(DirectiveDef {
            name: format!("tag{i}"),
            arg,
            locations: vec!["OBJECT".into(), "FIELD_DEFINITION".into()],
            file: rng.below(n_files),
        });
    }

    // leaf types usable in output positions
    let mut leaf: Vec<String> = vec!["ID".into(), "String".into(), "Int".into(), "Float".into(), "Boolean".into()];
    leaf.extend(scalars.iter().cloned());
    leaf.extend(enums.iter().cloned());
    let mut in_leaf = leaf.clone();
    let composite: Vec<String> = objs.iter().chain(ifaces.iter()).chain(unions.iter()).cloned().collect();

    // a schema-wide table: field name -> (type, args).  Using one table for all
    // object and interface types keeps every generated selection free of
    // response-shape conflicts.
    let mut fnames: Vec<&str> = FIELD_NAMES.to_vec();
    rng.shuffle(&mut fnames);
    let n_fields = if rich { 14 } else { rng.range(5, 10) };
    let mut table: Vec<FieldDef> = Vec::new();
    for name in fnames.iter().take(n_fields) {
        let comp = rng.chance(2, 5) && !composite.is_empty();
        let tname = if comp { rng.pick(&composite).clone() } else { rng.pick(&leaf).clone() };
        let list = rng.chance(1, 3);
        let ty = TypeRef { name: tname, list, inner_nonnull: list && rng.chance(2, 3), nonnull: rng.chance(1, 2) };
        let mut args = Vec::new();
        if !plain && rng.chance(1, 4) {
            let n = rng.range(1, 2);
            let mut an: Vec<&str> = ARG_NAMES.to_vec();
            rng.shuffle(&mut an);
            for a in an.iter().take(n) {
                let use_input = !inputs.is_empty() && rng.chance(1, 4);
                let tn = if use_input { rng.pick(&inputs).clone() } else { rng.pick(&in_leaf).clone() };
                let l = rng.chance(1, 5);
                args.push(ArgDef { name: (*a).into(), ty: TypeRef { name: tn, list: l, inner_nonnull: l, nonnull: rng.chance(1, 3) } });
            }
        }
        table.push(FieldDef { name: (*name).into(), ty, args, desc: None, deprecated: false, directive: None });
    }
    let id_field = FieldDef { name: "id".into(), ty: TypeRef::named("ID", true), args: vec![], desc: None, deprecated: false, directive: None };

    // enums
    for e in &enums {
        let mut vals: Vec<&str> = ENUM_VALUES.to_vec();
        rng.shuffle(&mut vals);
        let n = rng.range(2, 4);
        let values: Vec<String> = vals.into_iter().take(n).map(String::from).collect();
        let ext_tail = if !plain && values.len() > 2 && rng.chance(1, 4) { 1 } else { 0 };
        m.types.push(TypeDef {
            name: e.clone(),
            kind: Kind::Enum,
            desc: desc(rng),
            fields: vec![],
            implements: vec![],
            members: vec![],
            values,
            ext_tail,
            directive: None,
            file: rng.below(n_files),
            ext_file: rng.below(n_files),
            ext_first: rng.chance(1, 2),
        });
    }
    // scalars
    for s in &scalars {
        m.types.push(TypeDef {
            name: s.clone(),
            kind: Kind::Scalar,
            desc: desc(rng),
            fields: vec![],
            implements: vec![],
            members: vec![],
            values: vec![],
            ext_tail: 0,
            directive: None,
            file: rng.below(n_files),
            ext_file: 0,
            ext_first: false,
        });
    }
    // inputs (fields: leaves and earlier inputs, nullable when nested)
    let mut done_inputs: Vec<String> = Vec::new();
    for inp in &inputs {
        let n = rng.range(1, 4);
        let mut an: Vec<&str> = FIELD_NAMES.to_vec();
        rng.shuffle(&mut an);
        let mut fields = Vec::new();
        for a in an.iter().take(n) {
            let nested = !done_inputs.is_empty() && rng.chance(1, 4);
            let tn = if nested { rng.pick(&done_inputs).clone() } else { rng.pick(&in_leaf).clone() };
            let l = rng.chance(1, 5);
            fields.push(FieldDef {
                name: (*a).into(),
                ty: TypeRef { name: tn, list: l, inner_nonnull: l && rng.chance(1, 2), nonnull: !nested && rng.chance(1, 3) },
                args: vec![],
                desc: desc(rng),
                deprecated: false,
                directive: None,
            });
        }
        let ext_tail = if !plain && fields.len() > 1 && rng.chance(1, 4) { 1 } else { 0 };
        m.types.push(TypeDef {
            name: inp.clone(),
            kind: Kind::Input,
            desc: desc(rng),
            fields,
            implements: vec![],
            members: vec![],
            values: vec![],
            ext_tail,
            directive: None,
            file: rng.below(n_files),
            ext_file: rng.below(n_files),
            ext_first: rng.chance(1, 2),
        });
        done_inputs.push(inp.clone());
    }
    in_leaf.extend(inputs.iter().cloned());

    // interfaces, possibly chained: iface[k] may implement iface[j<k]
    let mut iface_fields: BTreeMap<String, Vec<FieldDef>> = BTreeMap::new();
    let mut iface_impls: BTreeMap<String, Vec<String>> = BTreeMap::new();
    for (k, i) in ifaces.iter().enumerate() {
        let mut fields = vec![id_field.clone()];
        let mut implements = Vec::new();
        if k > 0 && rng.chance(1, 2) {
            let parent = &ifaces[rng.below(k)];
            implements.extend(iface_impls[parent].iter().cloned());
            implements.push(parent.clone());
            for f in &iface_fields[parent] {
                if !fields.iter().any(|g| g.name == f.name) {
                    fields.push(f.clone());
                }
            }
        }
        let extra = rng.range(0, 2);
        for _ in 0..extra {
            let f = rng.pick(&table).clone();
            if !fields.iter().any(|g| g.name == f.name) {
                fields.push(f);
            }
        }
        implements.dedup();
        iface_fields.insert(i.clone(), fields.clone());
        iface_impls.insert(i.clone(), implements.clone());
        m.types.push(TypeDef {
            name: i.clone(),
            kind: Kind::Interface,
            desc: desc(rng),
            fields,
            implements,
            members: vec![],
            values: vec![],
            ext_tail: 0,
            directive: None,
            file: rng.below(n_files),
            ext_file: 0,
            ext_first: false,
        });
    }
    // objects
    for (oi, o) in objs.iter().enumerate() {
        let mut fields = vec![id_field.clone()];
        let mut implements: Vec<String> = Vec::new();
        // in rich mode make sure each interface gets >= 2 implementers
        for (k, i) in ifaces.iter().enumerate() {
            let forced = rich && (oi == k || oi == k + 1);
            if forced || rng.chance(1, 3) {
                for p in iface_impls[i].iter().chain(std::iter::once(i)) {
                    if !implements.contains(p) {
                        implements.push(p.clone());
                    }
                }
                for f in &iface_fields[i] {
                    if !fields.iter().any(|g| g.name == f.name) {
                        fields.push(f.clone());
                    }
                }
            }
        }
        let extra = if rich { rng.range(2, 5) } else { rng.range(1, 4) };
        for _ in 0..extra {
            let f = rng.pick(&table).clone();
            if !fields.iter().any(|g| g.name == f.name) {
                fields.push(f);
            }
        }
        for f in fields.iter_mut() {
            f.desc = desc(rng);
            f.deprecated = !plain && rng.chance(1, 10);
            if !m.directives.is_empty() && rng.chance(1, 6) {
                f.directive = Some(rng.pick(&m.directives).name.clone());
            }
        }
        let ext_tail = if !plain && fields.len() > 2 && rng.chance(1, 3) { rng.range(1, 2).min(fields.len() - 1) } else { 0 };
        // fields that come from interfaces stay in the definition piece (ext_tail counts from the end)
        let directive = (!m.directives.is_empty() && rng.chance(1, 5)).then(|| rng.pick(&m.directives).name.clone());
        m.types.push(TypeDef {
            name: o.clone(),
            kind: Kind::Object,
            desc: desc(rng),
            fields,
            implements,
            members: vec![],
            values: vec![],
            ext_tail,
            directive,
            file: rng.below(n_files),
            ext_file: rng.below(n_files),
            ext_first: rng.chance(1, 2),
        });
    }
    // unions
    for u in &unions {
        let mut ms = objs.clone();
        rng.shuffle(&mut ms);
        let n = rng.range(2, 3).min(ms.len());
        ms.truncate(n);
        let ext_tail = if !plain && ms.len() > 2 && rng.chance(1, 4) { 1 } else { 0 };
        m.types.push(TypeDef {
            name: u.clone(),
            kind: Kind::Union,
            desc: desc(rng),
            fields: vec![],
            implements: vec![],
            members: ms,
            values: vec![],
            ext_tail,
            directive: None,
            file: rng.below(n_files),
            ext_file: rng.below(n_files),
            ext_first: rng.chance(1, 2),
        });
    }
    // roots
    let rename = !plain && rng.chance(1, 6);
    m.schema_block = rename || (!plain && rng.chance(1, 8));
    m.query = if rename { "RootQuery".into() } else { "Query".into() };
    let mut root_fields = |rng: &mut Rng, n: usize, mutation: bool| -> Vec<FieldDef> {
        let mut fields = Vec::new();
        let mut comp = composite.clone();
        rng.shuffle(&mut comp);
        for (k, c) in comp.iter().take(n).enumerate() {
            let base = c.chars().next().unwrap().to_ascii_lowercase().to_string() + &c[1..];
            let list = !mutation && rng.chance(1, 2);
            let name = if mutation { format!("update{c}") } else if list { format!("{base}List") } else { base };
            let mut args = Vec::new();
            if mutation || rng.chance(1, 2) {
                args.push(ArgDef { name: "id".into(), ty: TypeRef::named("ID", mutation || rng.chance(1, 2)) });
            }
            if !plain && !inputs.is_empty() && rng.chance(1, 3) {
                args.push(ArgDef { name: "input".into(), ty: TypeRef::named(rng.pick(&inputs).as_str(), false) });
            }
            if !plain && !enums.is_empty() && rng.chance(1, 4) {
                args.push(ArgDef { name: "mode".into(), ty: TypeRef::named(rng.pick(&enums).as_str(), false) });
            }
            let _ = k;
            fields.push(FieldDef {
                name,
                ty: TypeRef { name: c.clone(), list, inner_nonnull: list, nonnull: rng.chance(1, 2) },
                args,
                desc: desc(rng),
                deprecated: false,
                directive: None,
            });
        }
        if !mutation {
            fields.push(FieldDef { name: "version".into(), ty: TypeRef::named("String", true), args: vec![], desc: None, deprecated: false, directive: None });
        }
        fields
    };
    let nq = rng.range(2, 4);
    let qf = root_fields(rng, nq, false);
    let q_ext = if !plain && qf.len() > 2 && rng.chance(1, 3) { 1 } else { 0 };
    m.types.push(TypeDef {
        name: m.query.clone(),
        kind: Kind::Object,
        desc: None,
        fields: qf,
        implements: vec![],
        members: vec![],
        values: vec![],
        ext_tail: q_ext,
        directive: None,
        file: rng.below(n_files),
        ext_file: rng.below(n_files),
        ext_first: rng.chance(1, 2),
    });
    if rng.chance(1, 2) {
        let name = if rename { "RootMutation" } else { "Mutation" };
        let n = rng.range(1, 2);
        let f = root_fields(rng, n, true);
        m.mutation = Some(name.into());
        m.types.push(TypeDef {
            name: name.into(),
            kind: Kind::Object,
            desc: None,
            fields: f,
            implements: vec![],
            members: vec![],
            values: vec![],
            ext_tail: 0,
            directive: None,
            file: rng.below(n_files),
            ext_file: 0,
            ext_first: false,
        });
    }
    if !plain && rng.chance(1, 4) {
        let name = if rename { "RootSubscription" } else { "Subscription" };
        let f = root_fields(rng, 1, false);
        m.subscription = Some(name.into());
        m.types.push(TypeDef {
            name: name.into(),
            kind: Kind::Object,
            desc: None,
            fields: f,
            implements: vec![],
            members: vec![],
            values: vec![],
            ext_tail: 0,
            directive: None,
            file: rng.below(n_files),
            ext_file: 0,
            ext_first: false,
        });
    }
    // definition order is shuffled (order inside the model = order inside files)
    rng.shuffle(&mut m.types);
    // no schema file may be empty (an empty document is a parse error): move a definition
    // out of a file that holds at least two
    for i in 0..n_files {
        if m.types.iter().any(|t| t.file == i) {
            continue;
        }
        let donor = (0..n_files).find(|j| m.types.iter().filter(|t| t.file == *j).count() >= 2);
        if let Some(j) = donor {
            let k = m.types.iter().position(|t| t.file == j).unwrap();
            m.types[k].file = i;
        }
    }
    let used: Vec<usize> = (0..n_files).filter(|i| m.types.iter().any(|t| t.file == *i)).collect();
    if used.len() < n_files {
        // fewer definitions than files: renumber and shrink
        for t in m.types.iter_mut() {
            t.file = used.iter().position(|u| *u == t.file).unwrap();
            t.ext_file %= used.len();
        }
        for d in m.directives.iter_mut() {
            d.file %= used.len();
        }
        m.n_files = used.len();
    }
    // the other root types may be declared by an `extend schema` piece, in any file
    if m.schema_block && !plain && rng.chance(1, 2) {
        m.schema_ext_file = Some(rng.below(m.n_files));
    }
    m
}

fn render_desc(d: &Option<String>, indent: &str, out: &mut String) {
    if let Some(d) = d {
        out.push_str(indent);
        out.push('"');
        out.push_str(d);
        out.push_str("\"\n");
    }
}

fn render_dir(d: &Option<String>, m: &SchemaModel) -> String {
    match d {
        None => String::new(),
        // the model plugin's directive: with a TypeScript type on objects, bare on fields
        Some(n) if n == "model:object" => " @model(type: \"{ id: string }\")".to_string(),
        Some(n) if n == "model" => " @model".to_string(),
        Some(n) => {
            let has_arg = m.directives.iter().find(|x| &x.name == n).is_some_and(|x| x.arg.is_some());
            if has_arg { format!(" @{n}(label: \"x\")") } else { format!(" @{n}") }
        }
    }
}

fn render_field(f: &FieldDef, m: &SchemaModel, out: &mut String) {
    render_desc(&f.desc, "  ", out);
    out.push_str("  ");
    out.push_str(&f.name);
    if !f.args.is_empty() {
        out.push('(');
        let a: Vec<String> = f.args.iter().map(|a| format!("{}: {}", a.name, a.ty.render())).collect();
        out.push_str(&a.join(", "));
        out.push(')');
    }
    out.push_str(": ");
    out.push_str(&f.ty.render());
    if f.deprecated {
        out.push_str(" @deprecated(reason: \"old\")");
    }
    out.push_str(&render_dir(&f.directive, m));
    out.push('\n');
}

/// Renders schema file `file` (0-based) of the model.
pub fn render_schema_file(m: &SchemaModel, file: usize) -> String {
    let mut out = String::new();
    let ext = m.schema_ext_file.filter(|_| m.schema_block && (m.mutation.is_some() || m.subscription.is_some()));
    if m.schema_block && file == 0 {
        out.push_str("schema {\n");
        out.push_str(&format!("  query: {}\n", m.query));
        if ext.is_none() {
            if let Some(x) = &m.mutation {
                out.push_str(&format!("  mutation: {x}\n"));
            }
            if let Some(x) = &m.subscription {
                out.push_str(&format!("  subscription: {x}\n"));
            }
        }
        out.push_str("}\n\n");
    }
    if ext == Some(file) {
        out.push_str("extend schema {\n");
        if let Some(x) = &m.mutation {
            out.push_str(&format!("  mutation: {x}\n"));
        }
        if let Some(x) = &m.subscription {
            out.push_str(&format!("  subscription: {x}\n"));
        }
        out.push_str("}\n\n");
    }
    for d in m.directives.iter().filter(|d| d.file == file) {
        out.push_str(&format!("directive @{}", d.name));
        if let Some(a) = &d.arg {
            out.push_str(&format!("({}: {})", a.name, a.ty.render()));
        }
        out.push_str(&format!(" on {}\n\n", d.locations.join(" | ")));
    }
    for t in &m.types {
        let total = match t.kind {
            Kind::Object | Kind::Interface | Kind::Input => t.fields.len(),
            Kind::Enum => t.values.len(),
            Kind::Union => t.members.len(),
            Kind::Scalar => 0,
        };
        let head = total - t.ext_tail.min(total);
        let kw = match t.kind {
            Kind::Object => "type",
            Kind::Interface => "interface",
            Kind::Input => "input",
            Kind::Enum => "enum",
            Kind::Union => "union",
            Kind::Scalar => "scalar",
        };
        let def_here = t.file == file;
        let ext_here = t.ext_tail > 0 && t.ext_file == file;
        let mut pieces: Vec<bool> = Vec::new(); // true = extension piece
        if def_here && ext_here {
            if t.ext_first {
                pieces.push(true);
                pieces.push(false);
            } else {
                pieces.push(false);
                pieces.push(true);
            }
        } else if def_here {
            pieces.push(false);
        } else if ext_here {
            pieces.push(true);
        }
        for is_ext in pieces {
            let (lo, hi) = if is_ext { (head, total) } else { (0, head) };
            if !is_ext {
                render_desc(&t.desc, "", &mut out);
            } else {
                out.push_str("extend ");
            }
            out.push_str(kw);
            out.push(' ');
            out.push_str(&t.name);
            if !is_ext && !t.implements.is_empty() {
                out.push_str(" implements ");
                out.push_str(&t.implements.join(" & "));
            }
            if !is_ext {
                out.push_str(&render_dir(&t.directive, m));
            }
            match t.kind {
                Kind::Scalar => {
                    if m.ts_type_directives && !is_ext {
                        out.push_str(" @nitrogql_ts_type(resolverInput: \"string\", resolverOutput: \"Date | string\", operationInput: \"string\", operationOutput: \"string\")");
                    }
                    out.push('\n')
                }
                Kind::Union => {
                    out.push_str(" = ");
                    out.push_str(&t.members[lo..hi].join(" | "));
                    out.push('\n');
                }
                Kind::Enum => {
                    out.push_str(" {\n");
                    for v in &t.values[lo..hi] {
                        out.push_str(&format!("  {v}\n"));
                    }
                    out.push_str("}\n");
                }
                _ => {
                    out.push_str(" {\n");
                    for f in &t.fields[lo..hi] {
                        render_field(f, m, &mut out);
                    }
                    out.push_str("}\n");
                }
            }
            out.push('\n');
        }
    }
    if out.is_empty() {
        // a schema file must not be empty for every parser; keep a comment
        out.push_str("# (no definitions in this file)\n");
    }
    out
}

// ======================================================================== operations

#[derive(Clone, Debug)]
pub struct OpsOpts {
    pub max_files: usize,
    /// probability (x/100) that an import line is dangling / names a missing fragment
    pub dangling_pct: u32,
    pub missing_pct: u32,
    /// allow `A, A` style repeated names and repeated lines
    pub repeats: bool,
    /// cycles / self imports allowed
    pub cycles: bool,
    /// only plain constructs
    pub plain: bool,
    /// directories to choose from (relative to root, no trailing slash; "" = root)
    pub dirs: Vec<String>,
    pub min_files: usize,
    /// make every named import also name the local fragments its targets spread
    /// (needed for a project that `check` accepts)
    pub closed_imports: bool,
    /// drop fragments that no operation spreads
    pub cover_fragments: bool,
    /// fragments of different files may share a name (never in a project that must pass `check`)
    pub name_collisions: bool,
    /// let one path string carry a wildcard import and named imports (nitrogql rejects the
    /// combination; whether it does must not depend on the order of the lines)
    pub mixed_wildcard: bool,
}

impl Default for OpsOpts {
    fn default() -> Self {
        OpsOpts {
            max_files: 5,
            min_files: 1,
            dangling_pct: 0,
            missing_pct: 0,
            repeats: true,
            cycles: true,
            plain: false,
            closed_imports: false,
            cover_fragments: false,
            name_collisions: false,
            mixed_wildcard: false,
            dirs: vec!["src".into(), "src/a".into(), "src/a/b".into(), "src/c".into()],
        }
    }
}

struct FragInfo {
    name: String,
    on: String,
    global: usize,
}

fn value_for(rng: &mut Rng, m: &SchemaModel, ty: &TypeRef, depth: usize) -> String {
    let base = |rng: &mut Rng| -> String {
        match ty.name.as_str() {
            "ID" => format!("\"id{}\"", rng.below(9)),
            // BMP non-ASCII in string literals: columns in chars = UTF-16 units != bytes
            "String" => match rng.below(4) {
                0 => format!("\"名前 – café{}\"", rng.below(9)),
                _ => format!("\"s{}\"", rng.below(9)),
            },
            "Int" => format!("{}", rng.below(100)),
            "Float" => format!("{}.5", rng.below(10)),
            "Boolean" => if rng.chance(1, 2) { "true".into() } else { "false".into() },
            n => match m.get(n) {
                Some(t) if t.kind == Kind::Enum => rng.pick(&t.values).clone(),
                Some(t) if t.kind == Kind::Input => {
                    let mut parts = Vec::new();
                    for f in &t.fields {
                        if f.ty.nonnull || (depth < 2 && rng.chance(1, 2)) {
                            parts.push(format!("{}: {}", f.name, value_for(rng, m, &f.ty, depth + 1)));
                        }
                    }
                    format!("{{{}}}", parts.join(", "))
                }
                // custom scalar: a string is accepted for any custom scalar
                _ => format!("\"c{}\"", rng.below(9)),
            },
        }
    };
    if ty.list { format!("[{}]", base(rng)) } else { base(rng) }
}

struct SelCtx<'a> {
    m: &'a SchemaModel,
    avail: &'a [&'a FragInfo],
    min_global: usize,
    /// variables of the enclosing operation: (name, rendered type)
    vars: &'a [(String, String, Option<String>)],
    plain: bool,
    alias_counter: &'a mut usize,
    project_salt: u64,
}

fn det_rng(salt: u64, a: &str, b: &str) -> Rng {
    Rng::new(crate::rng::mix(salt, crate::rng::mix(crate::rng::fnv(a), crate::rng::fnv(b))))
}

fn gen_sel(rng: &mut Rng, cx: &mut SelCtx, parent: &str, depth: usize, is_sub_root: bool) -> Vec<SelItem> {
    let m = cx.m;
    let kind = m.kind_of(parent);
    let mut items: Vec<SelItem> = Vec::new();
    let mut used: Vec<String> = Vec::new();
    let directive = |rng: &mut Rng, cx: &SelCtx| -> Option<String> {
        if cx.plain || is_sub_root || !rng.chance(1, 8) {
            return None;
        }
        let d = if rng.chance(1, 2) { "skip" } else { "include" };
        let bool_vars: Vec<&(String, String, Option<String>)> = cx.vars.iter().filter(|v| v.1 == "Boolean!").collect();
        let bool_var = if bool_vars.is_empty() { None } else { Some(*rng.pick(&bool_vars)) };
        match bool_var {
            Some(v) if rng.chance(2, 3) => Some(format!("@{d}(if: ${})", v.0)),
            _ => Some(format!("@{d}(if: {})", if rng.chance(1, 2) { "true" } else { "false" })),
        }
    };
    if kind == Kind::Object || kind == Kind::Interface {
        let t = m.get(parent).unwrap();
        let n = if is_sub_root { 1 } else { rng.range(1, 4) };
        let mut order: Vec<usize> = (0..t.fields.len()).collect();
        rng.shuffle(&mut order);
        for fi in order.into_iter().take(n) {
            let f = &t.fields[fi];
            let fk = m.kind_of(&f.ty.name);
            let composite = matches!(fk, Kind::Object | Kind::Interface | Kind::Union);
            if composite && depth >= 3 {
                continue;
            }
            // arguments: deterministic per (type-independent) field name unless aliased
            let aliased = !cx.plain && !is_sub_root && rng.chance(1, 6);
            let mut args = Vec::new();
            {
                let mut dr = det_rng(cx.project_salt, &f.name, "args");
                let r: &mut Rng = if aliased { rng } else { &mut dr };
                for a in &f.args {
                    if a.ty.nonnull || r.chance(1, 2) {
                        // a variable of exactly this type, only for aliased fields
                        let var = if aliased { cx.vars.iter().find(|v| v.1 == a.ty.render()) } else { None };
                        match var {
                            Some(v) => args.push((a.name.clone(), format!("${}", v.0))),
                            None => args.push((a.name.clone(), value_for(r, m, &a.ty, 0))),
                        }
                    }
                }
            }
            let alias = if aliased {
                *cx.alias_counter += 1;
                Some(format!("al{}_{}", *cx.alias_counter, f.name))
            } else {
                None
            };
            if alias.is_none() {
                if used.contains(&f.name) {
                    continue;
                }
                used.push(f.name.clone());
            }
            let sel = if composite { Some(gen_sel(rng, cx, &f.ty.name, depth + 1, false)) } else { None };
            let d = directive(rng, cx);
            items.push(SelItem::Field { alias, name: f.name.clone(), args, directive: d, sel });
        }
        if items.is_empty() {
            items.push(SelItem::Field { alias: None, name: "id".into(), args: vec![], directive: None, sel: None });
            if !t.fields.iter().any(|f| f.name == "id") {
                // root types have no id
                items.clear();
                items.push(SelItem::Field { alias: None, name: "__typename".into(), args: vec![], directive: None, sel: None });
            }
        }
    }
    if is_sub_root {
        return items;
    }
    if kind == Kind::Union || rng.chance(1, 4) {
        if !items.iter().any(|i| matches!(i, SelItem::Field { name, alias: None, .. } if name == "__typename")) {
            items.push(SelItem::Field { alias: None, name: "__typename".into(), args: vec![], directive: None, sel: None });
        }
    }
    // inline fragments
    let possible = m.possible(parent);
    if depth < 3 && !possible.is_empty() && (kind == Kind::Union || (!cx.plain && rng.chance(1, 4))) {
        let n = rng.range(1, 2);
        for _ in 0..n {
            let on = if kind != Kind::Union && rng.chance(1, 4) { None } else { Some(rng.pick(&possible).clone()) };
            let target = on.clone().unwrap_or(parent.to_string());
            let sel = gen_sel(rng, cx, &target, depth + 1, false);
            let d = directive(rng, cx);
            items.push(SelItem::Inline { on, directive: d, sel });
        }
    }
    // spreads
    let cands: Vec<&&FragInfo> = cx
        .avail
        .iter()
        .filter(|f| f.global >= cx.min_global)
        .filter(|f| {
            f.on == parent || possible.contains(&f.on) || m.possible(&f.on).iter().any(|p| possible.contains(p))
        })
        .collect();
    // fragment expansion multiplies in the type printer: keep spreads shallow and few
    // (the pinned printer needs seconds to minutes for deeply nested spread chains; that
    // is a cost of a pure function and not what this workload is after)
    let spread_ok = if cx.min_global == 0 { depth <= 2 } else { depth <= 1 };
    if !cands.is_empty() && spread_ok && rng.chance(2, 3) {
        let n = if cx.min_global == 0 { rng.range(1, 2.min(cands.len())) } else { 1 };
        let mut seen: Vec<String> = Vec::new();
        for _ in 0..n {
            let f = rng.pick(&cands);
            if seen.contains(&f.name) {
                continue;
            }
            seen.push(f.name.clone());
            let d = directive(rng, cx);
            // now and then the same fragment is spread a second time in this selection set,
            // under a condition of its own (legal: the selections merge)
            let twice = !cx.plain && rng.chance(1, 6);
            let d2 = if twice {
                let kw = if rng.chance(1, 2) { "skip" } else { "include" };
                let bool_vars: Vec<&(String, String, Option<String>)> =
                    cx.vars.iter().filter(|v| v.1 == "Boolean!").filter(|v| !d.as_ref().is_some_and(|x| x.contains(&format!("${}", v.0)))).collect();
                Some(if bool_vars.is_empty() { format!("@{kw}(if: {})", if rng.chance(1, 2) { "true" } else { "false" }) } else { format!("@{kw}(if: ${})", rng.pick(&bool_vars).0) })
            } else {
                None
            };
            items.push(SelItem::Spread { name: f.name.clone(), directive: d });
            if twice {
                items.push(SelItem::Spread { name: f.name.clone(), directive: d2 });
            }
        }
    }
    rng.shuffle(&mut items);
    items
}

/// Generates the operation files of a project over schema `m`.
pub fn gen_ops(rng: &mut Rng, m: &SchemaModel, o: &OpsOpts) -> Vec<OpFileModel> {
    let n_files = rng.range(o.min_files, o.max_files.max(o.min_files));
    let salt = rng.next_u64();
    let composite: Vec<String> =
        m.types.iter().filter(|t| matches!(t.kind, Kind::Object | Kind::Interface | Kind::Union)).map(|t| t.name.clone()).collect();
    let nonroot: Vec<String> = composite
        .iter()
        .filter(|n| **n != m.query && Some(*n) != m.mutation.as_ref() && Some(*n) != m.subscription.as_ref())
        .cloned()
        .collect();
    // 1. paths
    let mut paths: Vec<String> = Vec::new();
    // (file names with more than one dot: `user.queries3.graphql`)
    let stems = ["main", "list", "item", "frag", "user", "detail", "shared", "query", "view", "card", "user.queries", "item.v2.frag"];
    while paths.len() < n_files {
        let d = rng.pick(&o.dirs).clone();
        let stem = rng.pick(&stems);
        let mut p = if d.is_empty() { format!("{stem}{}.graphql", paths.len()) } else { format!("{d}/{stem}{}.graphql", paths.len()) };
        // the same file name in several directories: one relative spelling (`./frag1.graphql`,
        // `../item0.graphql`) then denotes different files depending on who imports it
        if !paths.is_empty() && rng.chance(1, 3) {
            let b = indep::basename(rng.pick(&paths[..]).as_str()).to_string();
            let q = if d.is_empty() { b } else { format!("{d}/{b}") };
            if !paths.contains(&q) {
                p = q;
            }
        }
        paths.push(p);
    }
    // 2. fragments per file (names, targets), global order
    let mut frags: Vec<Vec<FragInfo>> = Vec::new();
    let mut all_names: Vec<String> = Vec::new();
    let mut g = 0;
    for fi in 0..n_files {
        // file 0 tends to be an "entry" (operations), later files tend to be fragment libraries
        let n = if fi == 0 { rng.below(2) } else { rng.range(0, 3) };
        let mut v = Vec::new();
        for _ in 0..n {
            if nonroot.is_empty() {
                break;
            }
            let on = rng.pick(&nonroot).clone();
            // some names end in what the naming options use as a suffix
            let name = match rng.below(6) {
                0 => format!("{on}{g}Fragment"),
                1 => format!("{on}{g}Doc"),
                _ => format!("{on}Frag{g}"),
            };
            // same fragment name in another file: identity is (file, name), not the name
            let name = if o.name_collisions && !all_names.is_empty() && rng.chance(1, 6) { rng.pick(&all_names).clone() } else { name };
            all_names.push(name.clone());
            v.push(FragInfo { name, on, global: g });
            g += 1;
        }
        frags.push(v);
    }
    // 3. import lines
    let mut files: Vec<OpFileModel> = Vec::new();
    for fi in 0..n_files {
        let mut imports: Vec<ImportLine> = Vec::new();
        let n_imp = if n_files == 1 && !o.cycles { 0 } else { rng.weighted(&[3, 4, 3, 1]) };
        for _ in 0..n_imp {
            let dangling = rng.chance(o.dangling_pct, 100);
            if dangling {
                let sp = ["./missing.graphql", "../nowhere/x.graphql", "./src/gone.graphql", "nothere.graphql"];
                let names = if rng.chance(1, 2) { None } else { Some(vec!["Ghost".to_string()]) };
                let spelling: String = (*rng.pick(&sp)).into();
                if imports.iter().any(|i| i.spelling == spelling) {
                    continue;
                }
                imports.push(ImportLine { spelling, target: None, names });
                continue;
            }
            let mut target = rng.below(n_files);
            if !o.cycles {
                // forward edges only: acyclic
                if fi + 1 >= n_files {
                    continue;
                }
                target = rng.range(fi + 1, n_files - 1);
            } else if target == fi && !rng.chance(1, 4) {
                target = (target + 1) % n_files;
                if target == fi {
                    continue;
                }
            }
            let abs_from = format!("/{}", paths[fi]);
            let abs_to = format!("/{}", paths[target]);
            let base = indep::relative_spec(&abs_from, &abs_to);
            let spelling = match rng.below(6) {
                0 if base.starts_with("./") => base[2..].to_string(),
                1 => {
                    // detour through a sibling directory name
                    if let Some(rest) = base.strip_prefix("./") { format!("./zz/../{rest}") } else { base.clone() }
                }
                2 => {
                    if let Some(rest) = base.strip_prefix("./") { format!("././{rest}") } else { base.clone() }
                }
                3 => {
                    // climb out of the own directory and back in
                    let dir = indep::dirname(&paths[fi]);
                    let last = indep::basename(dir);
                    if !dir.is_empty() && base.starts_with("./") {
                        format!("../{}/{}", last, &base[2..])
                    } else {
                        base.clone()
                    }
                }
                _ => base.clone(),
            };
            let tf = &frags[target];
            let names = if tf.is_empty() || rng.chance(3, 10) {
                None
            } else {
                let k = rng.range(1, 2.min(tf.len()));
                let mut idx: Vec<usize> = (0..tf.len()).collect();
                rng.shuffle(&mut idx);
                let mut ns: Vec<String> = idx.into_iter().take(k).map(|i| tf[i].name.clone()).collect();
                if o.repeats && rng.chance(1, 12) {
                    let d = ns[0].clone();
                    ns.push(d);
                }
                if rng.chance(o.missing_pct, 100) {
                    ns.push(format!("Nope{}", rng.below(9)));
                }
                Some(ns)
            };
            // nitrogql merges lines with the same path string and rejects
            // "wildcard twice" / "wildcard + names" for one path string by design
            if let Some(prev) = imports.iter().find(|i| i.spelling == spelling) {
                if (prev.names.is_none() || names.is_none()) && !(o.mixed_wildcard && rng.chance(1, 2)) {
                    continue;
                }
            }
            imports.push(ImportLine { spelling, target: Some(target), names });
            if o.repeats && imports.last().unwrap().names.is_some() && rng.chance(1, 15) {
                let l = imports.last().unwrap().clone();
                imports.push(l);
            }
        }
        files.push(OpFileModel { path: paths[fi].clone(), imports, defs: vec![], style: rng.next_u64() });
    }
    // 4. bodies
    let mut alias_counter = 0usize;
    let mut op_counter = 0usize;
    for fi in 0..n_files {
        // fragments directly available in this file
        let mut avail: Vec<&FragInfo> = frags[fi].iter().collect();
        for imp in &files[fi].imports {
            if let Some(t) = imp.target {
                match &imp.names {
                    None => avail.extend(frags[t].iter()),
                    Some(ns) => avail.extend(frags[t].iter().filter(|f| ns.contains(&f.name))),
                }
            }
        }
        avail.sort_by_key(|f| f.global);
        avail.dedup_by_key(|f| f.global);
        let mut defs: Vec<OpDef> = Vec::new();
        for f in &frags[fi] {
            let mut cx = SelCtx {
                m,
                avail: &avail,
                min_global: f.global + 1,
                vars: &[],
                plain: o.plain,
                alias_counter: &mut alias_counter,
                project_salt: salt,
            };
            // fragments start one level down: their bodies stay small
            let sel = gen_sel(rng, &mut cx, &f.on, 2, false);
            defs.push(OpDef::Fragment { name: f.name.clone(), on: f.on.clone(), sel });
        }
        let mut n_ops = if fi == 0 { rng.range(1, 2) } else { rng.weighted(&[5, 4, 1]) };
        if n_ops == 0 && frags[fi].is_empty() {
            n_ops = 1;
        }
        let anon = n_ops == 1 && rng.chance(1, 6);
        for _ in 0..n_ops {
            let mut kinds = vec![("query", m.query.clone())];
            if let Some(x) = &m.mutation {
                kinds.push(("mutation", x.clone()));
            }
            if let Some(x) = &m.subscription {
                kinds.push(("subscription", x.clone()));
            }
            let (kind, root) = rng.pick(&kinds).clone();
            let mut vars: Vec<(String, String, Option<String>)> = Vec::new();
            if !o.plain {
                if rng.chance(1, 3) {
                    vars.push(("flag".into(), "Boolean!".into(), None));
                    // two boolean variables: the type printer branches over their product
                    if rng.chance(1, 2) {
                        vars.push(("other".into(), "Boolean!".into(), None));
                    }
                }
                if rng.chance(1, 3) {
                    vars.push(("ident".into(), "ID!".into(), None));
                }
                if rng.chance(1, 5) {
                    vars.push(("opt".into(), "ID".into(), rng.chance(1, 2).then(|| "\"d\"".to_string())));
                }
            }
            let mut cx = SelCtx {
                m,
                avail: &avail,
                min_global: 0,
                vars: &vars,
                plain: o.plain,
                alias_counter: &mut alias_counter,
                project_salt: salt,
            };
            let sel = gen_sel(rng, &mut cx, &root, 0, kind == "subscription");
            op_counter += 1;
            let name = if anon { None } else { Some(format!("{}Op{}", ["get", "Load", "fetch", "Do"][rng.below(4)], op_counter)) };
            defs.push(OpDef::Operation { kind: kind.into(), name, vars, sel });
        }
        rng.shuffle(&mut defs);
        files[fi].defs = defs;
    }
    if o.closed_imports {
        close_imports(&mut files);
    }
    if o.cover_fragments {
        drop_unused_fragments(&mut files);
    }
    files
}

/// Removes every fragment that no operation of the project (transitively) spreads.
/// The pinned checker only looks into a fragment through the operations that spread
/// it, so a project whose every fragment is covered is one where `check` sees all text.
pub fn drop_unused_fragments(files: &mut Vec<OpFileModel>) {
    let mut body: BTreeMap<String, Vec<String>> = BTreeMap::new();
    let mut used: Vec<String> = Vec::new();
    for f in files.iter() {
        for d in &f.defs {
            match d {
                OpDef::Fragment { name, sel, .. } => {
                    let mut sp = Vec::new();
                    spreads_of(sel, &mut sp);
                    body.insert(name.clone(), sp);
                }
                OpDef::Operation { sel, .. } => spreads_of(sel, &mut used),
            }
        }
    }
    let mut i = 0;
    while i < used.len() {
        let n = used[i].clone();
        i += 1;
        for s in body.get(&n).cloned().unwrap_or_default() {
            if !used.contains(&s) {
                used.push(s);
            }
        }
    }
    let mut keep_counter = 0;
    for f in files.iter_mut() {
        f.defs.retain(|d| !d.is_fragment() || used.iter().any(|u| Some(u.as_str()) == d.name()));
        for imp in f.imports.iter_mut() {
            if let Some(ns) = imp.names.as_mut() {
                ns.retain(|n| used.contains(n));
            }
        }
        f.imports.retain(|imp| imp.names.as_ref().is_none_or(|ns| !ns.is_empty()));
        if f.defs.is_empty() {
            keep_counter += 1;
            f.defs.push(OpDef::Operation {
                kind: "query".into(),
                name: Some(format!("Keep{}_{}", keep_counter, f.style % 1000)),
                vars: vec![],
                sel: vec![SelItem::Field { alias: None, name: "__typename".into(), args: vec![], directive: None, sel: None }],
            });
        }
    }
}

pub fn spreads_of(sel: &[SelItem], out: &mut Vec<String>) {
    for it in sel {
        match it {
            SelItem::Field { sel: Some(s), .. } => spreads_of(s, out),
            SelItem::Field { .. } => {}
            SelItem::Spread { name, .. } => {
                if !out.contains(name) {
                    out.push(name.clone())
                }
            }
            SelItem::Inline { sel, .. } => spreads_of(sel, out),
        }
    }
}

/// For every named import, add the fragments local to the target file that the
/// named fragments (transitively) spread.
fn close_imports(files: &mut [OpFileModel]) {
    let snapshot: Vec<OpFileModel> = files.to_vec();
    for f in files.iter_mut() {
        for imp in f.imports.iter_mut() {
            let (Some(t), Some(names)) = (imp.target, imp.names.as_mut()) else { continue };
            let target = &snapshot[t];
            let mut i = 0;
            while i < names.len() {
                let n = names[i].clone();
                i += 1;
                for d in &target.defs {
                    if let OpDef::Fragment { name, sel, .. } = d {
                        if *name == n {
                            let mut sp = Vec::new();
                            spreads_of(sel, &mut sp);
                            for s in sp {
                                let local = target.defs.iter().any(|d| d.is_fragment() && d.name() == Some(s.as_str()));
                                if local && !names.contains(&s) {
                                    names.push(s);
                                }
                            }
                        }
                    }
                }
            }
        }
    }
}

fn render_sel(items: &[SelItem], indent: usize, style: u64, out: &mut String) {
    let unit = match style % 3 {
        0 => "  ",
        1 => "    ",
        _ => "\t",
    };
    let comma = (style >> 4) % 5 == 0;
    // fields grouped by empty lines (one file style in four)
    let blank_lines = (style >> 44) % 4 == 0;
    let pad = unit.repeat(indent);
    for (k, it) in items.iter().enumerate() {
        if blank_lines && k > 0 && k % 2 == 0 {
            out.push('\n');
        }
        out.push_str(&pad);
        match it {
            SelItem::Field { alias, name, args, directive, sel } => {
                if let Some(a) = alias {
                    out.push_str(a);
                    out.push_str(": ");
                }
                out.push_str(name);
                if !args.is_empty() {
                    out.push('(');
                    let a: Vec<String> = args.iter().map(|(n, v)| format!("{n}: {v}")).collect();
                    out.push_str(&a.join(", "));
                    out.push(')');
                }
                if let Some(d) = directive {
                    out.push(' ');
                    out.push_str(d);
                }
                if let Some(s) = sel {
                    out.push_str(" {\n");
                    render_sel(s, indent + 1, style, out);
                    out.push_str(&pad);
                    out.push('}');
                }
            }
            SelItem::Spread { name, directive } => {
                out.push_str("...");
                if (style >> 8) % 7 == 0 {
                    out.push(' ');
                }
                out.push_str(name);
                if let Some(d) = directive {
                    out.push(' ');
                    out.push_str(d);
                }
            }
            SelItem::Inline { on, directive, sel } => {
                out.push_str("...");
                if let Some(o) = on {
                    out.push_str(" on ");
                    out.push_str(o);
                }
                if let Some(d) = directive {
                    out.push(' ');
                    out.push_str(d);
                }
                out.push_str(" {\n");
                render_sel(sel, indent + 1, style, out);
                out.push_str(&pad);
                out.push('}');
            }
        }
        if comma {
            out.push(',');
        }
        out.push('\n');
    }
}

pub fn render_import(imp: &ImportLine, style: u64) -> String {
    // only double quotes make an import; a single-quoted line is a comment
    let q = '"';
    let lead = if (style >> 16) % 6 == 0 { "  " } else { "" };
    let names = match &imp.names {
        None => "*".to_string(),
        Some(ns) => ns.join(if (style >> 20) % 3 == 0 { "," } else { ", " }),
    };
    format!("{lead}#import {names} from {q}{}{q}", imp.spelling)
}

pub fn render_op_file(f: &OpFileModel) -> String {
    let mut out = String::new();
    let style = f.style;
    if (style >> 24) % 9 == 0 {
        out.push_str("# generated workload file\n");
    }
    for imp in &f.imports {
        out.push_str(&render_import(imp, style));
        out.push('\n');
    }
    if !f.imports.is_empty() && (style >> 28) % 2 == 0 {
        out.push('\n');
    }
    for d in &f.defs {
        match d {
            OpDef::Fragment { name, on, sel } => {
                out.push_str(&format!("fragment {name} on {on} {{\n"));
                render_sel(sel, 1, style, &mut out);
                out.push_str("}\n");
            }
            OpDef::Operation { kind, name, vars, sel } => {
let shorthand = kind == "query" && name.is_none() && vars.is_empty() && (style >> 32) % 2 == 0;
                if !shorthand {
                    out.push_str(kind);
                    if let Some(n) = name {
                        out.push(' ');
                        out.push_str(n);
                    }
                    if !vars.is_empty() {
                        let v: Vec<String> = vars
                            .iter()
                            .map(|(n, t, d)| match d {
                                Some(d) => format!("${n}: {t} = {d}"),
                                None => format!("${n}: {t}"),
                            })
                            .collect();
                        out.push_str(&format!("({})", v.join(", ")));
                    }
                    out.push(' ');
                }
                out.push_str("{\n");
                render_sel(sel, 1, style, &mut out);
                out.push_str("}\n");
            }
        }
        if (style >> 36) % 3 != 0 {
            out.push('\n');
        }
    }
    out
}

/// A tiny fixed schema for engines that never look at a schema (E1, E3).
pub fn tiny_schema() -> SchemaModel {
    let mut rng = Rng::new(7);
    gen_schema(&mut rng, &SchemaOpts { rich: false, plain: false })
}

// ======================================================================== introspection JSON

fn intro_type_ref(t: &TypeRef, m: &SchemaModel) -> serde_json::Value {
    use serde_json::json;
    let kind = match m.kind_of(&t.name) {
        Kind::Object => "OBJECT",
        Kind::Interface => "INTERFACE",
        Kind::Union => "UNION",
        Kind::Enum => "ENUM",
        Kind::Input => "INPUT_OBJECT",
        Kind::Scalar => "SCALAR",
    };
    let mut v = json!({"kind": kind, "name": t.name, "ofType": null});
    if t.list {
        if t.inner_nonnull {
            v = json!({"kind": "NON_NULL", "name": null, "ofType": v});
        }
        v = json!({"kind": "LIST", "name": null, "ofType": v});
    }
    if t.nonnull {
        v = json!({"kind": "NON_NULL", "name": null, "ofType": v});
    }
    v
}

/// The schema as the JSON result of the standard introspection query (`{"__schema": ...}`);
/// `wrap_data` puts it below a `data` member as servers answer it.  Everything the SDL
/// rendering carries except applied custom directives (introspection has no place for them).
pub fn render_introspection(m: &SchemaModel, pretty: bool) -> String {
    use serde_json::{Value, json};
    let named = |kind: &str, name: &str| json!({"kind": kind, "name": name, "ofType": null});
    let input_value = |a: &ArgDef| json!({"name": a.name, "description": null, "type": intro_type_ref(&a.ty, m), "defaultValue": null});
    let field = |f: &FieldDef| {
        json!({
            "name": f.name,
            "description": f.desc,
            "args": f.args.iter().map(input_value).collect::<Vec<_>>(),
            "type": intro_type_ref(&f.ty, m),
            "isDeprecated": f.deprecated,
            "deprecationReason": if f.deprecated { json!("old") } else { Value::Null },
        })
    };
    let mut types: Vec<Value> = Vec::new();
    for t in &m.types {
        let v = match t.kind {
            Kind::Scalar => json!({"kind": "SCALAR", "name": t.name, "description": t.desc, "fields": null, "inputFields": null, "interfaces": null, "enumValues": null, "possibleTypes": null}),
            Kind::Enum => json!({"kind": "ENUM", "name": t.name, "description": t.desc, "fields": null, "inputFields": null, "interfaces": null,
                "enumValues": t.values.iter().map(|v| json!({"name": v, "description": null, "isDeprecated": false, "deprecationReason": null})).collect::<Vec<_>>(), "possibleTypes": null}),
            Kind::Union => json!({"kind": "UNION", "name": t.name, "description": t.desc, "fields": null, "inputFields": null, "interfaces": null, "enumValues": null,
                "possibleTypes": t.members.iter().map(|x| named("OBJECT", x)).collect::<Vec<_>>()}),
            Kind::Input => json!({"kind": "INPUT_OBJECT", "name": t.name, "description": t.desc, "fields": null,
                "inputFields": t.fields.iter().map(|f| json!({"name": f.name, "description": f.desc, "type": intro_type_ref(&f.ty, m), "defaultValue": null})).collect::<Vec<_>>(),
                "interfaces": null, "enumValues": null, "possibleTypes": null}),
            Kind::Interface => json!({"kind": "INTERFACE", "name": t.name, "description": t.desc,
                "fields": t.fields.iter().map(field).collect::<Vec<_>>(), "inputFields": null,
                "interfaces": t.implements.iter().map(|x| named("INTERFACE", x)).collect::<Vec<_>>(), "enumValues": null,
                "possibleTypes": m.possible(&t.name).iter().map(|x| named("OBJECT", x)).collect::<Vec<_>>()}),
            Kind::Object => json!({"kind": "OBJECT", "name": t.name, "description": t.desc,
                "fields": t.fields.iter().map(field).collect::<Vec<_>>(), "inputFields": null,
                "interfaces": t.implements.iter().map(|x| named("INTERFACE", x)).collect::<Vec<_>>(), "enumValues": null, "possibleTypes": null}),
        };
        types.push(v);
    }
    for s in ["ID", "String", "Int", "Float", "Boolean"] {
        types.push(json!({"kind": "SCALAR", "name": s, "description": null, "fields": null, "inputFields": null, "interfaces": null, "enumValues": null, "possibleTypes": null}));
    }
    let bool_nn = json!({"kind": "NON_NULL", "name": null, "ofType": named("SCALAR", "Boolean")});
    let mut directives: Vec<Value> = vec![
        json!({"name": "skip", "description": null, "locations": ["FIELD", "FRAGMENT_SPREAD", "INLINE_FRAGMENT"], "args": [{"name": "if", "description": null, "type": bool_nn, "defaultValue": null}]}),
        json!({"name": "include", "description": null, "locations": ["FIELD", "FRAGMENT_SPREAD", "INLINE_FRAGMENT"], "args": [{"name": "if", "description": null, "type": bool_nn, "defaultValue": null}]}),
        json!({"name": "deprecated", "description": null, "locations": ["FIELD_DEFINITION", "ARGUMENT_DEFINITION", "INPUT_FIELD_DEFINITION", "ENUM_VALUE"],
            "args": [{"name": "reason", "description": null, "type": named("SCALAR", "String"), "defaultValue": "\"No longer supported\""}]}),
    ];
    for d in &m.directives {
        directives.push(json!({"name": d.name, "description": null, "locations": d.locations, "args": d.arg.iter().map(input_value).collect::<Vec<_>>()}));
    }
    let v = json!({"__schema": {
        "queryType": {"name": m.query},
        "mutationType": m.mutation.as_ref().map(|n| json!({"name": n})),
        "subscriptionType": m.subscription.as_ref().map(|n| json!({"name": n})),
        "types": types,
        "directives": directives,
    }});
    if pretty { serde_json::to_string_pretty(&v).unwrap() + "\n" } else { serde_json::to_string(&v).unwrap() + "\n" }
}
