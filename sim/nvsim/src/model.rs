//! ProjectModel: what the workload generator draws, what gets rendered to text,
//! and what the oracles reason from.

use serde::{Deserialize, Serialize};

#[derive(Clone, Debug, Serialize, Deserialize, PartialEq, Eq)]
pub enum Kind {
    Object,
    Interface,
    Union,
    Enum,
    Input,
    Scalar,
}

#[derive(Clone, Debug, Serialize, Deserialize)]
pub struct TypeRef {
    pub name: String,
    pub list: bool,
    /// `[T!]` - only meaningful when `list`
    pub inner_nonnull: bool,
    pub nonnull: bool,
}

impl TypeRef {
    pub fn named(name: &str, nonnull: bool) -> Self {
        TypeRef { name: name.into(), list: false, inner_nonnull: false, nonnull }
    }
    pub fn render(&self) -> String {
        let mut s = String::new();
        if self.list {
            s.push('[');
            s.push_str(&self.name);
            if self.inner_nonnull {
                s.push('!');
            }
            s.push(']');
        } else {
            s.push_str(&self.name);
        }
        if self.nonnull {
            s.push('!');
        }
        s
    }
}

#[derive(Clone, Debug, Serialize, Deserialize)]
pub struct ArgDef {
    pub name: String,
    pub ty: TypeRef,
}

#[derive(Clone, Debug, Serialize, Deserialize)]
pub struct FieldDef {
    pub name: String,
    pub ty: TypeRef,
    pub args: Vec<ArgDef>,
    pub desc: Option<String>,
    pub deprecated: bool,
    /// custom directive applied (`@tagN`), object fields only
    pub directive: Option<String>,
}

#[derive(Clone, Debug, Serialize, Deserialize)]
pub struct TypeDef {
    pub name: String,
    pub kind: Kind,
    pub desc: Option<String>,
    pub fields: Vec<FieldDef>,
    pub implements: Vec<String>,
    pub members: Vec<String>,
    pub values: Vec<String>,
    /// number of trailing fields/values/members rendered in an `extend` piece (0 = none)
    pub ext_tail: usize,
    /// custom directive applied to the definition
    pub directive: Option<String>,
    /// schema file index of the definition / of the extension piece
    pub file: usize,
    pub ext_file: usize,
    /// extension rendered before the definition when both are in the same file
    pub ext_first: bool,
}

#[derive(Clone, Debug, Serialize, Deserialize)]
pub struct DirectiveDef {
    pub name: String,
    pub arg: Option<ArgDef>,
    pub locations: Vec<String>,
    pub file: usize,
}

#[derive(Clone, Debug, Serialize, Deserialize, Default)]
pub struct SchemaModel {
    pub types: Vec<TypeDef>,
    pub directives: Vec<DirectiveDef>,
    pub n_files: usize,
    pub query: String,
    pub mutation: Option<String>,
    pub subscription: Option<String>,
    /// explicit `schema { ... }` block rendered
    pub schema_block: bool,
    /// custom scalars carry `@nitrogql_ts_type(...)` in the SDL (the other way, next to the
    /// `scalarTypes` option, to say which TypeScript type a scalar has)
    #[serde(default)]
    pub ts_type_directives: bool,
    /// the mutation / subscription root types are declared by an `extend schema { .. }` piece in
    /// this schema file (the `schema { query: .. }` block stays in file 0)
    #[serde(default)]
    pub schema_ext_file: Option<usize>,
}

impl SchemaModel {
    pub fn get(&self, name: &str) -> Option<&TypeDef> {
        self.types.iter().find(|t| t.name == name)
    }
    pub fn kind_of(&self, name: &str) -> Kind {
        match name {
            "ID" | "String" | "Int" | "Float" | "Boolean" => Kind::Scalar,
            n => self.get(n).map(|t| t.kind.clone()).unwrap_or(Kind::Scalar),
        }
    }
    /// object types that may occur at runtime for `name`
    pub fn possible(&self, name: &str) -> Vec<String> {
        match self.get(name) {
            Some(t) if t.kind == Kind::Object => vec![t.name.clone()],
            Some(t) if t.kind == Kind::Union => t.members.clone(),
            Some(t) if t.kind == Kind::Interface => self
                .types
                .iter()
                .filter(|o| o.kind == Kind::Object && o.implements.contains(&t.name))
                .map(|o| o.name.clone())
                .collect(),
            _ => vec![],
        }
    }
}

// ---------------------------------------------------------------- operations

#[derive(Clone, Debug, Serialize, Deserialize)]
pub enum SelItem {
    Field {
        alias: Option<String>,
        name: String,
        /// (arg name, rendered value)
        args: Vec<(String, String)>,
        /// rendered directive, e.g. `@skip(if: true)`
        directive: Option<String>,
        sel: Option<Vec<SelItem>>,
    },
    Spread {
        name: String,
        directive: Option<String>,
    },
    Inline {
        on: Option<String>,
        directive: Option<String>,
        sel: Vec<SelItem>,
    },
}

#[derive(Clone, Debug, Serialize, Deserialize)]
pub enum OpDef {
    Fragment {
        name: String,
        on: String,
        sel: Vec<SelItem>,
    },
    Operation {
        /// query | mutation | subscription
        kind: String,
        name: Option<String>,
        /// (name, rendered type, rendered default)
        vars: Vec<(String, String, Option<String>)>,
        sel: Vec<SelItem>,
    },
}

impl OpDef {
    pub fn name(&self) -> Option<&str> {
        match self {
            OpDef::Fragment { name, .. } => Some(name),
            OpDef::Operation { name, .. } => name.as_deref(),
        }
    }
    pub fn is_fragment(&self) -> bool {
        matches!(self, OpDef::Fragment { .. })
    }
}

#[derive(Clone, Debug, Serialize, Deserialize)]
pub struct ImportLine {
    /// the path exactly as written between the quotes
    pub spelling: String,
    /// index into `ops` of the file meant; `None` = dangling on purpose
    pub target: Option<usize>,
    /// `None` = wildcard
    pub names: Option<Vec<String>>,
}

#[derive(Clone, Debug, Serialize, Deserialize)]
pub struct OpFileModel {
    /// path relative to the project root (no leading `./`)
    pub path: String,
    pub imports: Vec<ImportLine>,
    pub defs: Vec<OpDef>,
    /// rendering style knobs
    pub style: u64,
}
