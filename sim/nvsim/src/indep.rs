//! Independent re-implementations used by oracles: a path normaliser, a GraphQL
//! lexer (token starts), a header scanner (which definitions a text contains),
//! a base64-VLQ reader.  None of this calls into nitrogql.

use std::collections::BTreeMap;

// ------------------------------------------------------------------ paths

thread_local! {
    /// symbolic links of the simulated file system of the current run: (link path, target path),
    /// both absolute and normalised.  Empty outside cli-sim runs with a symlinked layout.
    static LINKS: std::cell::RefCell<Vec<(String, String)>> = const { std::cell::RefCell::new(Vec::new()) };
}

pub fn set_links(links: &[(String, String)]) {
    LINKS.with(|l| *l.borrow_mut() = links.to_vec());
}

/// Normalisation of a `/`-separated path: removes `.`, resolves `..` (never above the root of
/// an absolute path), collapses `//`.  Lexical, unless the current run has symbolic links: then
/// an absolute path is resolved the way the kernel does it, component by component, following
/// the links - the result names the physical file.
pub fn norm(path: &str) -> String {
    LINKS.with(|l| norm_with(path, &l.borrow()))
}

pub fn norm_with(path: &str, links: &[(String, String)]) -> String {
    let abs = path.starts_with('/');
    let mut stack: Vec<String> = Vec::new();
    for c in path.split('/') {
        match c {
            "" | "." => {}
            ".." => {
                if let Some(top) = stack.last() {
                    if *top != ".." {
                        stack.pop();
                        continue;
                    }
                }
                if !abs {
                    stack.push("..".into());
                }
            }
            c => {
                stack.push(c.to_string());
                if abs && !links.is_empty() {
                    let cur = format!("/{}", stack.join("/"));
                    if let Some((_, target)) = links.iter().find(|(l, _)| *l == cur) {
                        stack = target.split('/').filter(|x| !x.is_empty()).map(String::from).collect();
                    }
                }
            }
        }
    }
    let body = stack.join("/");
    if abs { format!("/{body}") } else { body }
}

pub fn dirname(path: &str) -> &str {
    match path.rfind('/') {
        Some(0) => "/",
        Some(i) => &path[..i],
        None => "",
    }
}

pub fn basename(path: &str) -> &str {
    match path.rfind('/') {
        Some(i) => &path[i + 1..],
        None => path,
    }
}

/// The path under which the user sees a physical path (inverse of following the links).
pub fn to_logical(path: &str) -> String {
    LINKS.with(|l| {
        for (link, target) in l.borrow().iter() {
            if path == target {
                return link.clone();
            }
            if let Some(rest) = path.strip_prefix(&format!("{target}/")) {
                return format!("{link}/{rest}");
            }
        }
        path.to_string()
    })
}

/// What a relative reference `spec` written in the (physical) file `from_file` may designate:
/// resolved from the file's physical directory, and - when the file lives below a symbolic link -
/// resolved lexically from the directory under which the user sees the file.  Without links
/// the two coincide.  (`..` across a link is a different place for the kernel than for a lexical
/// resolver; no statement about nitrogql says which one a relative path means.)
pub fn resolve_candidates(from_file: &str, spec: &str) -> Vec<String> {
    let mut v = vec![resolve_from_file(from_file, spec)];
    let logical = to_logical(from_file);
    if logical != from_file && !spec.starts_with('/') {
        // lexical join first (no links), then the physical name of the result
        let lexical = norm_with(&format!("{}/{}", dirname(&logical), spec), &[]);
        let c = norm(&lexical);
        if !v.contains(&c) {
            v.push(c);
        }
    }
    v
}

/// Resolve `spec` relative to the *file* `from_file`.
pub fn resolve_from_file(from_file: &str, spec: &str) -> String {
    if spec.starts_with('/') {
        return norm(spec);
    }
    norm(&format!("{}/{}", dirname(from_file), spec))
}

/// Independent `relative(from_file, to)`: used only to *generate* spellings.
pub fn relative_spec(from_file: &str, to: &str) -> String {
    // (purely lexical: it produces what a user would type)
    let f = norm_with(dirname(from_file), &[]);
    let t = norm_with(to, &[]);
    let fc: Vec<&str> = f.split('/').filter(|c| !c.is_empty()).collect();
    let tc: Vec<&str> = t.split('/').filter(|c| !c.is_empty()).collect();
    let mut k = 0;
    while k < fc.len() && k < tc.len() && fc[k] == tc[k] {
        k += 1;
    }
    let mut parts: Vec<String> = Vec::new();
    for _ in k..fc.len() {
        parts.push("..".into());
    }
    for c in &tc[k..] {
        parts.push((*c).into());
    }
    let body = parts.join("/");
    if body.starts_with("..") { body } else { format!("./{body}") }
}

// ------------------------------------------------------------------ lexer

#[derive(Clone, Debug, PartialEq, Eq)]
pub enum TokKind {
    Punct,
    Name,
    Number,
    Str,
    BlockStr,
    /// a byte sequence that is not a GraphQL token (lexing continues after it)
    Junk,
}

#[derive(Clone, Debug)]
pub struct Tok {
    pub kind: TokKind,
    pub text: String,
    /// 0-based line
    pub line: usize,
    /// 0-based column in characters
    pub col: usize,
    /// 0-based column in UTF-16 units
    pub col16: usize,
    pub byte: usize,
}

/// Tokenises GraphQL text.  Never fails: unknown bytes become `Junk` tokens.
/// `#` comments are skipped (so `#import` lines yield no tokens here; they are
/// handled by `scan_imports`).
pub fn lex(src: &str) -> Vec<Tok> {
    let mut out = Vec::new();
    let b: Vec<(usize, char)> = src.char_indices().collect();
    let mut i = 0;
    let mut line = 0;
    let mut col = 0;
    let mut col16 = 0;
    macro_rules! adv {
        () => {{
            let c = b[i].1;
            if c == '\n' {
                line += 1;
                col = 0;
                col16 = 0;
            } else {
                col += 1;
                col16 += c.len_utf16();
            }
            i += 1;
        }};
    }
    while i < b.len() {
        let (off, c) = b[i];
        if c == '\u{feff}' || c == ' ' || c == '\t' || c == '\n' || c == '\r' || c == ',' {
            adv!();
            continue;
        }
        if c == '#' {
            while i < b.len() && b[i].1 != '\n' {
                adv!();
            }
            continue;
        }
        let (sl, sc, sc16) = (line, col, col16);
        let start = i;
        let kind;
        if c == '_' || c.is_ascii_alphabetic() {
            while i < b.len() && (b[i].1 == '_' || b[i].1.is_ascii_alphanumeric()) {
                adv!();
            }
            kind = TokKind::Name;
        } else if c == '-' || c.is_ascii_digit() {
            adv!();
            while i < b.len()
                && (b[i].1.is_ascii_digit()
                    || b[i].1 == '.'
                    || b[i].1 == 'e'
                    || b[i].1 == 'E'
                    || ((b[i].1 == '+' || b[i].1 == '-')
                        && (b[i - 1].1 == 'e' || b[i - 1].1 == 'E')))
            {
                adv!();
            }
            kind = TokKind::Number;
        } else if c == '"' {
            if i + 2 < b.len() && b[i + 1].1 == '"' && b[i + 2].1 == '"' {
                adv!();
                adv!();
                adv!();
                loop {
                    if i >= b.len() {
                        break;
                    }
                    if b[i].1 == '\\'
                        && i + 3 < b.len()
                        && b[i + 1].1 == '"'
                        && b[i + 2].1 == '"'
                        && b[i + 3].1 == '"'
                    {
                        adv!();
                        adv!();
                        adv!();
                        adv!();
                        continue;
                    }
                    if b[i].1 == '"' && i + 2 < b.len() && b[i + 1].1 == '"' && b[i + 2].1 == '"' {
                        adv!();
                        adv!();
                        adv!();
                        break;
                    }
                    adv!();
                }
                kind = TokKind::BlockStr;
            } else {
                adv!();
                while i < b.len() && b[i].1 != '"' && b[i].1 != '\n' {
                    if b[i].1 == '\\' && i + 1 < b.len() {
                        adv!();
                    }
                    adv!();
                }
                if i < b.len() && b[i].1 == '"' {
                    adv!();
                }
                kind = TokKind::Str;
            }
        } else if c == '.' {
            if i + 2 < b.len() && b[i + 1].1 == '.' && b[i + 2].1 == '.' {
                adv!();
                adv!();
                adv!();
                kind = TokKind::Punct;
            } else {
                adv!();
                kind = TokKind::Junk;
            }
        } else if "!$&()=:@[]{|}".contains(c) {
            adv!();
            kind = TokKind::Punct;
        } else {
            adv!();
            kind = TokKind::Junk;
        }
        let end = if i < b.len() { b[i].0 } else { src.len() };
        let _ = start;
        out.push(Tok { kind, text: src[off..end].to_string(), line: sl, col: sc, col16: sc16, byte: off });
    }
    out
}

/// Map (line, col) -> token index for quick "is a token start" queries.
pub struct TokIndex {
    pub toks: Vec<Tok>,
    by_pos: BTreeMap<(usize, usize), usize>,
    by_pos16: BTreeMap<(usize, usize), usize>,
    pub line_lens: Vec<usize>,
    pub line_lens16: Vec<usize>,
}

impl TokIndex {
    pub fn new(src: &str) -> Self {
        let toks = lex(src);
        let mut by_pos = BTreeMap::new();
        let mut by_pos16 = BTreeMap::new();
        for (i, t) in toks.iter().enumerate() {
            by_pos.insert((t.line, t.col), i);
            by_pos16.insert((t.line, t.col16), i);
        }
        let mut line_lens = Vec::new();
        let mut line_lens16 = Vec::new();
        for l in src.split('\n') {
            line_lens.push(l.chars().count());
            line_lens16.push(l.encode_utf16().count());
        }
        TokIndex { toks, by_pos, by_pos16, line_lens, line_lens16 }
    }
    pub fn at(&self, line: usize, col: usize) -> Option<&Tok> {
        self.by_pos.get(&(line, col)).map(|i| &self.toks[*i])
    }
    pub fn at16(&self, line: usize, col16: usize) -> Option<&Tok> {
        self.by_pos16.get(&(line, col16)).map(|i| &self.toks[*i])
    }
    pub fn idx_at(&self, line: usize, col: usize) -> Option<usize> {
        self.by_pos.get(&(line, col)).copied()
    }
    pub fn idx_at16(&self, line: usize, col16: usize) -> Option<usize> {
        self.by_pos16.get(&(line, col16)).copied()
    }
    pub fn inside(&self, line: usize, col: usize) -> bool {
        line < self.line_lens.len() && col <= self.line_lens[line]
    }
}

// ------------------------------------------------------------------ import lines

#[derive(Clone, Debug)]
pub struct ImportScan {
    pub line: usize,
    /// `None` = wildcard
    pub names: Option<Vec<String>>,
    pub path: String,
}

/// Recognises `#import A, B from "p"` / `#import * from 'p'` comment lines the way
/// the documentation describes them (the whole comment line, leading blanks allowed).
pub fn scan_imports(src: &str) -> Vec<ImportScan> {
    let mut out = Vec::new();
    for (ln, l) in src.split('\n').enumerate() {
        let t = l.trim_start();
        let Some(rest) = t.strip_prefix("#import") else { continue };
        if !rest.starts_with([' ', '\t']) {
            continue;
        }
        let rest = rest.trim();
        let Some(fpos) = rest.rfind(" from ") else { continue };
        let (targets, p) = (rest[..fpos].trim(), rest[fpos + 6..].trim());
        let p = p.trim_end_matches(';').trim();
        if p.len() < 2 {
            continue;
        }
        let q = p.as_bytes()[0];
        if (q != b'"' && q != b'\'') || p.as_bytes()[p.len() - 1] != q {
            continue;
        }
        let path = p[1..p.len() - 1].to_string();
        let names = if targets == "*" {
            None
        } else {
            Some(targets.split(',').map(|s| s.trim().to_string()).filter(|s| !s.is_empty()).collect())
        };
        out.push(ImportScan { line: ln, names, path });
    }
    out
}

/// Field / input-field declarations inside the braces of the definition (or extension) whose
/// name token is `toks[from]`, up to token index `to`: (field name, token index of the name).
pub fn scan_field_decls(toks: &[Tok], from: usize, to: usize) -> Vec<(String, usize)> {
    let mut out = Vec::new();
    let (mut braces, mut parens) = (0i32, 0i32);
    let mut i = from + 1;
    while i < to.min(toks.len()) {
        let t = &toks[i];
        if t.kind == TokKind::Punct {
            match t.text.as_str() {
                "{" => braces += 1,
                "}" => braces -= 1,
                "(" => parens += 1,
                ")" => parens -= 1,
                _ => {}
            }
        } else if t.kind == TokKind::Name && braces == 1 && parens == 0 {
            let next = toks.get(i + 1).map(|n| n.text.as_str());
            let prev = if i > 0 { Some(toks[i - 1].text.as_str()) } else { None };
            if (next == Some("(") || next == Some(":")) && prev != Some("@") {
                out.push((t.text.clone(), i));
            }
        }
        i += 1;
    }
    out
}

// ------------------------------------------------------------------ header scan

#[derive(Clone, Debug)]
pub struct Header {
    /// `type`, `interface`, `union`, `enum`, `input`, `scalar`, `directive`, `schema`,
    /// `fragment`, `query`, `mutation`, `subscription`
    pub keyword: String,
    pub extend: bool,
    pub name: Option<String>,
    /// position of the keyword token (of `extend` when present)
    pub kw_line: usize,
    pub kw_col: usize,
    /// position of the name token
    pub name_line: usize,
    pub name_col: usize,
    /// token index of the name (or keyword when anonymous)
    pub tok: usize,
}

/// Top-level definitions of a GraphQL text according to the independent lexer.
pub fn scan_headers(toks: &[Tok]) -> Vec<Header> {
    let mut out = Vec::new();
    let mut depth = 0i32;
    let mut pdepth = 0i32;
    let mut pending = false;
    let mut i = 0;
    while i < toks.len() {
        let t = &toks[i];
        if t.kind == TokKind::Punct {
            match t.text.as_str() {
                "{" => {
                    if depth == 0 && pdepth == 0 {
                        if pending {
                            pending = false;
                        } else {
                            // anonymous query shorthand
                            out.push(Header {
                                keyword: "query".into(),
                                extend: false,
                                name: None,
                                kw_line: t.line,
                                kw_col: t.col,
                                name_line: t.line,
                                name_col: t.col,
                                tok: i,
                            });
                        }
                    }
                    depth += 1
                }
                "}" => depth -= 1,
                "(" | "[" => pdepth += 1,
                ")" | "]" => pdepth -= 1,
                _ => {}
            }
            i += 1;
            continue;
        }
        if depth == 0 && pdepth == 0 && t.kind == TokKind::Name {
            let mut j = i;
            let mut extend = false;
            if t.text == "extend" && j + 1 < toks.len() {
                extend = true;
                j += 1;
            }
            let kw = toks[j].text.as_str();
            match kw {
                "type" | "interface" | "union" | "enum" | "input" | "scalar" | "fragment" => {
                    if j + 1 < toks.len() && toks[j + 1].kind == TokKind::Name {
                        pending = !matches!(kw, "union" | "scalar");
                        out.push(Header {
                            keyword: kw.into(),
                            extend,
                            name: Some(toks[j + 1].text.clone()),
                            kw_line: t.line,
                            kw_col: t.col,
                            name_line: toks[j + 1].line,
                            name_col: toks[j + 1].col,
                            tok: j + 1,
                        });
                        i = j + 2;
                        continue;
                    }
                }
                "directive" => {
                    if j + 2 < toks.len() && toks[j + 1].text == "@" {
                        out.push(Header {
                            keyword: kw.into(),
                            extend,
                            name: Some(toks[j + 2].text.clone()),
                            kw_line: t.line,
                            kw_col: t.col,
                            name_line: toks[j + 2].line,
                            name_col: toks[j + 2].col,
                            tok: j + 2,
                        });
                        i = j + 3;
                        continue;
                    }
                }
                "query" | "mutation" | "subscription" => {
                    pending = true;
                    let named = j + 1 < toks.len() && toks[j + 1].kind == TokKind::Name;
                    out.push(Header {
                        keyword: kw.into(),
                        extend,
                        name: named.then(|| toks[j + 1].text.clone()),
                        kw_line: t.line,
                        kw_col: t.col,
                        name_line: if named { toks[j + 1].line } else { t.line },
                        name_col: if named { toks[j + 1].col } else { t.col },
                        tok: if named { j + 1 } else { j },
                    });
                    i = j + 1 + named as usize;
                    continue;
                }
                "schema" => {
                    pending = true;
                    out.push(Header {
                        keyword: kw.into(),
                        extend,
                        name: None,
                        kw_line: t.line,
                        kw_col: t.col,
                        name_line: t.line,
                        name_col: t.col,
                        tok: j,
                    });
                    i = j + 1;
                    continue;
                }
                _ => {}
            }
        }
        i += 1;
    }
    out
}

// ------------------------------------------------------------------ VLQ

const B64: &[u8; 64] = b"ABCDEFGHIJKLMNOPQRSTUVWXYZabcdefghijklmnopqrstuvwxyz0123456789+/";

/// Decodes one `mappings` string into lines of segments of raw (relative) fields.
pub fn vlq_decode_mappings(m: &str) -> Result<Vec<Vec<Vec<i64>>>, String> {
    let mut lines = Vec::new();
    for line in m.split(';') {
        let mut segs = Vec::new();
        if !line.is_empty() {
            for seg in line.split(',') {
                if seg.is_empty() {
                    return Err("empty segment".into());
                }
                let mut fields = Vec::new();
                let mut shift = 0u32;
                let mut acc: i64 = 0;
                let mut open = false;
                for ch in seg.bytes() {
                    let Some(d) = B64.iter().position(|c| *c == ch) else {
                        return Err(format!("bad base64 char {:?}", ch as char));
                    };
                    let d = d as i64;
                    if shift > 50 {
                        return Err("vlq overflow".into());
                    }
                    acc |= (d & 31) << shift;
                    shift += 5;
                    open = true;
                    if d & 32 == 0 {
                        let neg = acc & 1 == 1;
                        let v = acc >> 1;
                        fields.push(if neg { -v } else { v });
                        acc = 0;
                        shift = 0;
                        open = false;
                    }
                }
                if open {
                    return Err("unterminated vlq".into());
                }
                segs.push(fields);
            }
        }
        lines.push(segs);
    }
    Ok(lines)
}

#[cfg(test)]
mod tests {
    use super::*;
    #[test]
    fn norm_basic() {
        assert_eq!(norm("/a/b/../c/./d"), "/a/c/d");
        assert_eq!(norm("/../a"), "/a");
        assert_eq!(norm("a/../../b"), "../b");
        assert_eq!(resolve_from_file("/p/src/x.graphql", "../y/z.graphql"), "/p/y/z.graphql");
        assert_eq!(relative_spec("/p/src/x.graphql", "/p/y/z.graphql"), "../y/z.graphql");
        assert_eq!(relative_spec("/p/src/x.graphql", "/p/src/z.graphql"), "./z.graphql");
    }
    #[test]
    fn vlq() {
        assert_eq!(vlq_decode_mappings("AAAA,CAAC;;gBAAgB").unwrap(), vec![
            vec![vec![0, 0, 0, 0], vec![1, 0, 0, 1]],
            vec![],
            vec![vec![16, 0, 0, 16]]
        ]);
    }
    #[test]
    fn lex_basic() {
        let t = lex("query Q($a: Int = 1) {\n  f(x: \"é\") ...F # c\n}");
        let texts: Vec<_> = t.iter().map(|t| t.text.as_str()).collect();
        assert_eq!(texts, vec!["query", "Q", "(", "$", "a", ":", "Int", "=", "1", ")", "{", "f", "(", "x", ":", "\"é\"", ")", "...", "F", "}"]);
        assert_eq!((t[11].line, t[11].col), (1, 2));
        let h = scan_headers(&t);
        assert_eq!(h.len(), 1);
        assert_eq!(h[0].name.as_deref(), Some("Q"));
    }
}
