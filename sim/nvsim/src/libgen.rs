//! E4 lib-pipeline: the generation pipeline re-enacted through the public library API
//! (the entry points `cli/src/main.rs` and `generate.rs` call), in-process, on a thread with
//! its own hash seed.  Used by C17: "the library entry points called in-process produce the
//! same bytes as the CLI".
//!
//! Restricted to projects with `schemaModuleSpecifier` set (no CLI-private specifier glue has
//! to be re-implemented) and without plugins; only generated *text* (declarations and the server
//! schema module) is compared, not mappings
//! (those depend on `generate.rs`'s private file-index table).

#[path = "/repo/crates/cli/src/builtins.rs"]
#[allow(dead_code)]
mod cli_builtins;

use nitrogql_ast::type_system::TypeSystemOrExtensionDocument;
use nitrogql_ast::{OperationDocument, set_current_file_of_pos};
use nitrogql_semantics::{OperationExtension, OperationResolver};
use std::collections::{BTreeMap, HashMap};
use std::path::{Path, PathBuf};

pub struct LibOut {
    pub schema: String,
    pub resolvers: String,
    /// text of the `serverGraphqlOutput` module
    pub server_graphql: String,
    /// operation file path -> declaration text
    pub ops: BTreeMap<String, String>,
}

struct MapResolver<'a, 'src> {
    map: HashMap<PathBuf, (&'a OperationDocument<'src>, &'a OperationExtension<'src>)>,
}
impl<'src> OperationResolver<'src> for MapResolver<'_, 'src> {
    fn resolve(&self, path: &Path) -> Option<(&OperationDocument<'src>, &OperationExtension<'src>)> {
        self.map.get(path).copied()
    }
}

/// `schema_files` / `op_files`: (path, text) in the order in which the CLI loaded them.
pub fn lib_generate(config_text: &str, schema_files: &[(String, String)], op_files: &[(String, String)]) -> Result<LibOut, String> {
    let config = nitrogql_config_file::parse_config(config_text).ok_or("config")?;
    let spec = config.generate.schema_module_specifier.clone().ok_or("no schemaModuleSpecifier")?;
    // sources live as long as the worker thread needs them
    let leak = |s: &String| -> &'static str { Box::leak(s.clone().into_boxed_str()) };
    // ---- schema (main.rs)
    let mut docs = Vec::new();
    for (i, (p, t)) in schema_files.iter().enumerate() {
        set_current_file_of_pos(i);
        docs.push(nitrogql_parser::parse_type_system_document(leak(t)).map_err(|e| format!("parse {p}: {e:?}"))?);
    }
    let mut merged = TypeSystemOrExtensionDocument::merge(docs);
    merged.extend(graphql_builtins::generate_builtins());
    merged.extend(cli_builtins::nitrogql_builtins());
    let resolved = nitrogql_semantics::resolve_schema_extensions(merged).map_err(|_| "schema extensions".to_string())?;
    if !nitrogql_checker::check_type_system_document(&resolved).is_empty() {
        return Err("schema check errors".into());
    }
    // ---- operations (main.rs + check.rs)
    let mut parsed = Vec::new();
    for (j, (p, t)) in op_files.iter().enumerate() {
        set_current_file_of_pos(schema_files.len() + j);
        let d = nitrogql_parser::parse_operation_document(leak(t)).map_err(|e| format!("parse {p}: {e:?}"))?;
        let (d, e) = nitrogql_semantics::resolve_operation_extensions(d).map_err(|_| format!("extensions {p}"))?;
        parsed.push((PathBuf::from(p), d, e));
    }
    let resolver = MapResolver { map: parsed.iter().map(|(p, d, e)| (nitrogql_utils::normalize_path(p), (d, e))).collect() };
    let mut resolved_ops = Vec::new();
    for (p, d, e) in &parsed {
        let doc = nitrogql_semantics::resolve_operation_imports((p, d, e), &resolver).map_err(|_| format!("imports {}", p.display()))?;
        resolved_ops.push((p.clone(), doc));
    }
    let schema = nitrogql_semantics::ast_to_type_system(&resolved);
    let ctx = nitrogql_checker::OperationCheckContext::new(&schema);
    for (p, doc) in &resolved_ops {
        if !nitrogql_checker::check_operation_document(doc, &ctx).is_empty() {
            return Err(format!("check errors in {}", p.display()));
        }
    }
    // ---- generate.rs
    let schema_text = {
        let mut writer = sourcemap_writer::SourceWriter::new();
        let options = nitrogql_printer::SchemaTypePrinterOptions::from_config(&config);
        let mut printer = nitrogql_printer::SchemaTypePrinter::new(options, &mut writer);
        printer.print_document(&resolved).map_err(|e| format!("schema printer: {e}"))?;
        writer.into_buffers().buffer
    };
    let resolvers_text = {
        let mut writer = sourcemap_writer::SourceWriter::new();
        let mut options = nitrogql_printer::ResolverTypePrinterOptions::from_config(&config);
        options.schema_source = spec.clone();
        let mut printer = nitrogql_printer::ResolverTypePrinter::new(options, &mut writer);
        let no_plugins: &[nitrogql_plugin::Plugin] = &[];
        printer.print_document(&resolved, no_plugins).map_err(|e| format!("resolver printer: {e}"))?;
        writer.into_buffers().buffer
    };
    let server_graphql = {
        use nitrogql_printer::GraphQLPrinter;
        let mut buffer = String::new();
        buffer.push_str("// generated by nitrogql\n");
        buffer.push_str("export const schema = ");
        let mut writer = sourcemap_writer::JsStringWriter::new(&mut buffer);
        cli_builtins::remove_builtins(&resolved).print_graphql(&mut writer);
        drop(writer);
        buffer.push_str(";\n");
        buffer
    };
    let mut ops = BTreeMap::new();
    for (p, doc) in &resolved_ops {
        let mut writer = sourcemap_writer::SourceWriter::new();
        let mut options = nitrogql_printer::OperationTypePrinterOptions::from_config(&config);
        options.schema_source = spec.clone();
        nitrogql_printer::print_types_for_operation_document(options, &schema, doc, &mut writer);
        ops.insert(p.to_string_lossy().into_owned(), writer.into_buffers().buffer);
    }
    Ok(LibOut { schema: schema_text, resolvers: resolvers_text, server_graphql, ops })
}
