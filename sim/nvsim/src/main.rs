mod abi;
mod checks;
mod artifacts;
mod e1;
mod e2;
mod e3;
mod hashseed;
mod indep;
mod libgen;
mod model;
mod project;
mod rng;
mod sandbox;
mod sim;
mod wgen;

use sim::{Engine, Tier};
use std::path::Path;

fn engines() -> Vec<Box<dyn Engine>> {
    vec![Box::new(e1::E1), Box::new(e2::E2), Box::new(e3::E3)]
}

fn ctx_from_env(args: &[String]) -> checks::Ctx {
    let mut tier = match std::env::var("VERIF_TIER").as_deref() {
        Ok("thorough") => Tier::Thorough,
        _ => Tier::Quick,
    };
    let mut i = 0;
    while i < args.len() {
        if args[i] == "--tier" && i + 1 < args.len() {
            tier = if args[i + 1] == "thorough" { Tier::Thorough } else { Tier::Quick };
        }
        i += 1;
    }
    let verif_seed = std::env::var("VERIF_SEED").ok().and_then(|s| s.parse::<u64>().ok()).unwrap_or(20260927);
    let out_dir = std::env::var("NVSIM_OUT").unwrap_or("/verif/out".into());
    let _ = std::fs::create_dir_all(&out_dir);
    let workers = std::env::var("NVSIM_WORKERS").ok().and_then(|s| s.parse().ok()).unwrap_or_else(|| {
        std::thread::available_parallelism().map(|n| n.get()).unwrap_or(4)
    });
    checks::Ctx {
        verif_seed,
        tier,
        out_dir,
        exe: std::env::current_exe().unwrap().to_string_lossy().into_owned(),
        asan_exe: std::env::var("NVSIM_ASAN_EXE").unwrap_or("/verif/target/sim-asan/x86_64-unknown-linux-gnu/debug/nvsim".into()),
        workers,
        env: vec![],
        wrap: vec![],
        known_path: std::env::var("NVSIM_KNOWN").unwrap_or("/verif/known_findings.txt".into()),
    }
}

fn main() {
    let args: Vec<String> = std::env::args().collect();
    match args.get(1).map(|s| s.as_str()) {
        Some("worker") => {
            // private mount namespace + tmpfs before any thread exists (only the cli-sim engine
            // needs it: workers of the in-process engines, which are re-spawned after every trap,
            // skip it)
            if std::env::var("NVSIM_NO_NS").is_err() {
                if let Err(e) = sandbox::enter_namespace() {
                    eprintln!("NVSIM-NAMESPACE-ERROR: {e}");
                }
            }
            sim::worker_main(&engines())
        }
        Some("check") => {
            let ctx = ctx_from_env(&args[2..]);
            let id = args.get(2).expect("property id");
            std::process::exit(checks::run_check(&ctx, &engines(), id));
        }
        Some("selftest-determinism") => {
            // every (engine, variant) class: N run indices executed twice, by different worker
            // processes, once with 1 worker and once with 16; the complete reports must agree
            let ctx = ctx_from_env(&args[2..]);
            let n: u64 = args.get(2).and_then(|s| s.parse().ok()).unwrap_or(300);
            let mut bad = 0;
            for (engine, variant, scale) in [("e3", "", 4), ("e1", "l1", 2), ("e1", "l2", 2), ("e1", "c13", 2), ("e1", "c08", 2),
                ("e2", "c18", 1), ("e2", "c18f", 1), ("e2", "c17", 1), ("e2", "c08", 1), ("e2", "c13", 1), ("e2", "arte", 1), ("e2", "c14", 1)] {
                let cfg = ctx.worker_cfg(false);
                let a = sim::run_collect(&cfg, engine, variant, ctx.verif_seed, n * scale, 16);
                let b = sim::run_collect(&cfg, engine, variant, ctx.verif_seed, n * scale, 1.max(ctx.workers / 8));
                let diff: Vec<u64> = a.iter().filter(|(k, v)| b.get(k) != Some(v)).map(|(k, _)| *k).collect();
                println!("determinism {engine}/{variant}: {} runs x2, {} differ {:?}", a.len(), diff.len(), diff.iter().take(5).collect::<Vec<_>>());
                bad += diff.len();
            }
            std::process::exit(if bad == 0 { 0 } else { 1 });
        }
        Some("selftest-hashseed") => {
            // the getrandom override decides HashMap iteration order inside the simulator
            let a = hashseed::on_fresh_instance(1, hashseed::probe_order);
            let b = hashseed::on_fresh_instance(1, hashseed::probe_order);
            let c = hashseed::on_fresh_instance(2, hashseed::probe_order);
            println!("seed 1: {a:?}\nseed 1: {b:?}\nseed 2: {c:?}");
            std::process::exit(if a == b && a != c { 0 } else { 1 });
        }
        Some("replay") => {
            let ctx = ctx_from_env(&args[2..]);
            let path = args.get(2).expect("replay file");
            std::process::exit(checks::replay_file(&ctx, &engines(), path, true));
        }
        Some("inside") => {
            // nvsim inside <e2-scenario.json> <shell command>: materialise the scenario's tree in a
            // private namespace and run a shell command there (debugging aid)
            sandbox::enter_namespace().expect("namespace");
            let v: serde_json::Value = serde_json::from_str(&std::fs::read_to_string(&args[2]).unwrap()).unwrap();
            let v = if v.get("scenario").is_some() { v["scenario"].clone() } else { v };
            let sc: e2::E2Scenario = serde_json::from_value(v).unwrap();
            sandbox::set_links(&sc.project.links);
            sandbox::reset_tree(&sc.tree_bytes());
            let st = std::process::Command::new("bash").arg("-c").arg(&args[3]).current_dir(&sc.project.cwd)
                .env("NVSIM_ARGS", sc.project.config_args().join(" ")).env("NVSIM_FLAGS", sc.project.flag_args().join(" ")).status().unwrap();
            std::process::exit(st.code().unwrap_or(1));
        }
        Some("exec") => {
            // nvsim exec <engine> <variant> <run index>: in-process execution, prints the report (debugging aid)
            sandbox::enter_namespace().expect("namespace");
            let ctx = ctx_from_env(&args[5..]);
            let e = engines();
            let eng = checks::engine_by_name(&e, &args[2]);
            let seed = rng::run_seed(ctx.verif_seed, &format!("{}/{}", args[2], args[3]), args[4].parse().unwrap());
            let sc = eng.generate(seed, &args[3], Tier::Quick);
            let mut r = eng.execute(&sc);
            r.sample = None;
            println!("{}", serde_json::to_string(&r).unwrap());
        }
        Some("inproc") => {
            // nvsim inproc <engine> <variant> <from> <to>: generate + execute in this process, one after
            // the other (the entry point used under Miri, which cannot spawn workers)
            let ctx_seed = std::env::var("VERIF_SEED").ok().and_then(|s| s.parse::<u64>().ok()).unwrap_or(20260927);
            let e = engines();
            let eng = checks::engine_by_name(&e, &args[2]);
            let (from, to): (u64, u64) = (args[4].parse().unwrap(), args[5].parse().unwrap());
            let mut bad = 0;
            for i in from..to {
                let seed = rng::run_seed(ctx_seed, &format!("{}/{}", args[2], args[3]), i);
                let sc = eng.generate(seed, &args[3], Tier::Quick);
                let r = eng.execute(&sc);
                println!("run {i} seed {seed}: events={} violations={:?}", r.events, r.violations.iter().map(|v| &v.class).collect::<Vec<_>>());
                bad += r.violations.len();
            }
            std::process::exit(if bad == 0 { 0 } else { 1 });
        }
        Some("miri-e1") => {
            let (a, b): (u64, u64) = (args[2].parse().unwrap(), args[3].parse().unwrap());
            std::process::exit(if e1::miri_smoke(a, b) == 0 { 0 } else { 1 });
        }
        Some("scenario-at") => {
            // nvsim scenario-at <engine> <variant> <from> <to>: the generated scenarios of a class, one JSON per line
            let ctx = ctx_from_env(&args[6..]);
            let e = engines();
            let eng = checks::engine_by_name(&e, &args[2]);
            let (from, to): (u64, u64) = (args[4].parse().unwrap(), args[5].parse().unwrap());
            for i in from..to {
                let seed = rng::run_seed(ctx.verif_seed, &format!("{}/{}", args[2], args[3]), i);
                println!("{}", serde_json::to_string(&eng.generate(seed, &args[3], Tier::Quick)).unwrap());
            }
        }
        Some("scenario") => {
            // nvsim scenario <engine> <variant> <run_seed>
            let e = engines();
            let eng = checks::engine_by_name(&e, &args[2]);
            let v = eng.generate(args[4].parse().unwrap(), &args[3], Tier::Quick);
            println!("{}", serde_json::to_string_pretty(&v).unwrap());
        }
        Some("gen") => {
            let seed: u64 = args[2].parse().unwrap();
            let dir = &args[3];
            let mut rng = rng::Rng::new(seed);
            let p = project::gen_project(&mut rng, &project::ProjectOpts { cycles: args.get(4).is_some(), closed_imports: true, max_files: 5, introspection_pct: std::env::var("NVSIM_INTRO").ok().and_then(|s| s.parse().ok()).unwrap_or(0), ..Default::default() });
            for (path, text) in p.files() {
                let real = format!("{}{}", dir, path.strip_prefix(project::SANDBOX).unwrap());
                std::fs::create_dir_all(Path::new(&real).parent().unwrap()).unwrap();
                std::fs::write(&real, text).unwrap();
            }
            println!("{}", format!("{}{}", dir, p.cwd.strip_prefix(project::SANDBOX).unwrap()));
            println!("{}", p.config_args().join(" "));
        }
        _ => {
            eprintln!("usage: nvsim check <ID> [--tier quick|thorough] | replay <file> | worker | gen <seed> <dir>");
            std::process::exit(2);
        }
    }
}
