//! E3 resolver-seam: `resolve_operation_imports` driven through the
//! `OperationResolver` trait exactly as `cli/src/check.rs` and
//! `graphql-loader/src/loader.rs` drive it, compared with an independent
//! reference closure (C13).

use crate::hashseed;
use crate::indep;
use crate::model::*;
use crate::rng::{self, Rng};
use crate::sim::{Engine, RunReport, Tier};
use crate::wgen::{self, OpsOpts};
use nitrogql_ast::operation::ExecutableDefinition;
use nitrogql_ast::{OperationDocument, set_current_file_of_pos};
use nitrogql_error::PositionedError;
use nitrogql_semantics::{OperationExtension, OperationResolver, resolve_operation_extensions, resolve_operation_imports};
use serde::{Deserialize, Serialize};
use serde_json::{Value, json};
use std::collections::{BTreeMap, BTreeSet, HashMap};
use std::path::{Path, PathBuf};

#[derive(Clone, Debug, Serialize, Deserialize)]
pub struct E3File {
    /// absolute path as the host knows the file
    pub path: String,
    pub imports: Vec<ImportLine>,
    /// (is_fragment, name)
    pub defs: Vec<(bool, Option<String>)>,
    pub text: String,
    /// text with import lines permuted (same set of lines)
    pub text_perm: String,
    /// offered by the resolver ("among the configured documents")
    pub present: bool,
}

#[derive(Clone, Debug, Serialize, Deserialize)]
pub struct E3Scenario {
    pub hash_seed: u64,
    pub files: Vec<E3File>,
    pub root: usize,
    /// the root document's path as the caller hands it in (the CLI passes glob results,
    /// which may contain `.` and `..`); empty = the normalised path
    #[serde(default)]
    pub root_as_given: String,
}

// ------------------------------------------------------------------ reference closure

#[derive(Debug, PartialEq, Eq, Clone)]
pub struct BadImport {
    pub file: usize,
    pub spelling: String,
    /// None = dangling file; Some(name) = name not defined in target
    pub missing: Option<String>,
}

pub struct RefResult {
    /// (defining file, fragment name) brought in by imports (root's own fragments excluded)
    pub imported: BTreeSet<(usize, String)>,
    pub bad: Vec<BadImport>,
    pub reach: BTreeSet<usize>,
}

/// The independent reference: files reachable from the root over import edges
/// (targets resolved with the independent normaliser against `paths` restricted to
/// present files), and for every import line of every reached file the named
/// fragments (all fragments for `*`) of its target.
pub fn reference_closure(files: &[(String, Vec<ImportLine>, Vec<String>, bool)], root: usize) -> RefResult {
    let by_path: BTreeMap<String, usize> =
        files.iter().enumerate().filter(|(i, f)| f.3 || *i == root).map(|(i, f)| (indep::norm(&f.0), i)).collect();
    let mut reach = BTreeSet::new();
    let mut stack = vec![root];
    let mut imported = BTreeSet::new();
    let mut bad = Vec::new();
    while let Some(f) = stack.pop() {
        if !reach.insert(f) {
            continue;
        }
        for imp in &files[f].1 {
            let target_path = indep::resolve_from_file(&files[f].0, &imp.spelling);
            match by_path.get(&target_path) {
                None => bad.push(BadImport { file: f, spelling: imp.spelling.clone(), missing: None }),
                Some(&t) => {
                    match &imp.names {
                        None => {
                            for n in &files[t].2 {
                                imported.insert((t, n.clone()));
                            }
                        }
                        Some(ns) => {
                            for n in ns {
                                if files[t].2.contains(n) {
                                    imported.insert((t, n.clone()));
                                } else {
                                    bad.push(BadImport { file: f, spelling: imp.spelling.clone(), missing: Some(n.clone()) });
                                }
                            }
                        }
                    }
                    stack.push(t);
                }
            }
        }
    }
    // the root's own fragments are "own definitions", not imports
    let own: Vec<(usize, String)> = files[root].2.iter().map(|n| (root, n.clone())).collect();
    for o in own {
        imported.remove(&o);
    }
    RefResult { imported, bad, reach }
}

// ------------------------------------------------------------------ generator

fn render_with_perm(f: &OpFileModel, perm_seed: u64) -> String {
    let mut g = f.clone();
    let mut r = Rng::new(perm_seed);
    r.shuffle(&mut g.imports);
    wgen::render_op_file(&g)
}

pub fn gen_scenario(run_seed: u64, tier: Tier) -> E3Scenario {
    let base = Rng::new(run_seed);
    let mut rw = base.fork("workload");
    let mut rf = base.fork("faults");
    let schema = if rw.chance(1, 2) { wgen::tiny_schema() } else { wgen::gen_schema(&mut base.fork("schema"), &Default::default()) };
    let small = rw.chance(1, 2);
    let (dang, miss) = match rw.below(4) {
        0 => (0, 0),
        1 => (12, 0),
        2 => (0, 15),
        _ => (8, 8),
    };
    let o = OpsOpts {
        max_files: if small { 4 } else if tier == Tier::Thorough { 7 } else { 6 },
        min_files: 1,
        dangling_pct: dang,
        missing_pct: miss,
        repeats: true,
        cycles: true,
        plain: rw.chance(1, 3),
        closed_imports: false,
        cover_fragments: false,
        name_collisions: true,
        mixed_wildcard: rw.chance(1, 8),
        dirs: vec!["/p/src".into(), "/p/src/a".into(), "/p/src/a/b".into(), "/p/lib".into(), "/q".into()],
    };
    let mut ops = wgen::gen_ops(&mut rw, &schema, &o);
    let mut root = rw.below(ops.len());
    // once in a while a long chain of imports (one fragment per file): depth is no limit
    let mut r_deep = base.fork("deep_chain");
    if r_deep.chance(1, 150) {
        let n = 66 + r_deep.below(30);
        let on = schema.types.iter().find(|t| t.kind == crate::model::Kind::Object).map(|t| t.name.clone()).unwrap_or("Query".into());
        ops = (0..n)
            .map(|i| OpFileModel {
                path: format!("/p/chain/f{i}.graphql"),
                imports: if i + 1 < n { vec![ImportLine { spelling: format!("./f{}.graphql", i + 1), target: Some(i + 1), names: if i % 2 == 0 { None } else { Some(vec![format!("ChainFrag{}", i + 1)]) } }] } else { vec![] },
                defs: vec![crate::model::OpDef::Fragment { name: format!("ChainFrag{i}"), on: on.clone(), sel: vec![crate::model::SelItem::Field { alias: None, name: "__typename".into(), args: vec![], directive: None, sel: None }] }],
                style: 0,
            })
            .collect();
        root = 0;
    }
    let mut files = Vec::new();
    for (i, f) in ops.iter().enumerate() {
        // gen_ops joins dir and stem with '/', dirs are absolute here
        let present = i == root || !rf.chance(1, 12);
        files.push(E3File {
            path: f.path.clone(),
            imports: f.imports.clone(),
            defs: f.defs.iter().map(|d| (d.is_fragment(), d.name().map(String::from))).collect(),
            text: wgen::render_op_file(f),
            text_perm: render_with_perm(f, rng::mix(run_seed, i as u64)),
            present,
        });
    }
    let root_as_given = if rw.chance(1, 4) {
        let p = &files[root].path;
        let dir = indep::dirname(p);
        let last = indep::basename(dir);
        match rw.below(2) {
            0 => format!("{dir}/../{last}/{}", indep::basename(p)),
            _ => format!("{dir}/./{}", indep::basename(p)),
        }
    } else {
        String::new()
    };
    E3Scenario { hash_seed: base.fork("hash").next_u64(), files, root, root_as_given }
}

// ------------------------------------------------------------------ execution

struct MapResolver<'a, 'src> {
    map: HashMap<PathBuf, (&'a OperationDocument<'src>, &'a OperationExtension<'src>)>,
}

impl<'src> OperationResolver<'src> for MapResolver<'_, 'src> {
    fn resolve(&self, path: &Path) -> Option<(&OperationDocument<'src>, &OperationExtension<'src>)> {
        self.map.get(path).copied()
    }
}

#[derive(Debug)]
pub enum Resolved {
    /// (file index from position, is_fragment, name)
    Ok(Vec<(usize, bool, Option<String>)>),
    /// error position (file, line, col), if positioned
    Err(Option<(usize, usize, usize)>),
    /// a file of the scenario did not parse (not a resolver matter)
    ParseFail(usize),
}

/// Runs the real resolver over `texts` (index = file index used for positions).
pub fn run_resolver(texts: &[(String, String, bool)], root: usize) -> Resolved {
    run_resolver_as(texts, root, "")
}

pub fn run_resolver_as(texts: &[(String, String, bool)], root: usize, root_as_given: &str) -> Resolved {
    // leak the sources for the duration of the run (worker-lifetime small)
    let mut parsed: Vec<Option<(OperationDocument<'_>, OperationExtension<'_>)>> = Vec::new();
    for (i, (_, text, _)) in texts.iter().enumerate() {
        set_current_file_of_pos(i);
        let doc = match nitrogql_parser::parse_operation_document(text) {
            Ok(d) => d,
            Err(_) => return Resolved::ParseFail(i),
        };
        match resolve_operation_extensions(doc) {
            Ok(p) => parsed.push(Some(p)),
            Err(_) => return Resolved::ParseFail(i),
        }
    }
    let mut map = HashMap::new();
    for (i, (path, _, present)) in texts.iter().enumerate() {
        if *present || i == root {
            let p = parsed[i].as_ref().unwrap();
            map.insert(PathBuf::from(path), (&p.0, &p.1));
        }
    }
    let resolver = MapResolver { map };
    let r = parsed[root].as_ref().unwrap();
    let root_path = if root_as_given.is_empty() { texts[root].0.as_str() } else { root_as_given };
    match resolve_operation_imports((Path::new(root_path), &r.0, &r.1), &resolver) {
        Ok(doc) => Resolved::Ok(
            doc.definitions
                .iter()
                .map(|d| match d {
                    ExecutableDefinition::FragmentDefinition(f) => (f.position.file, true, Some(f.name.name.to_string())),
                    ExecutableDefinition::OperationDefinition(o) => (o.position.file, false, o.name.map(|n| n.name.to_string())),
                })
                .collect(),
        ),
        Err(e) => {
            let pe: PositionedError = e.into();
            Resolved::Err(pe.position().filter(|p| !p.builtin).map(|p| (p.file, p.line, p.column)))
        }
    }
}

/// token starts (line, col) on import lines of `text` whose path string equals `spelling`,
/// plus the column of the `#` itself
fn import_line_positions(text: &str, spelling: &str) -> Vec<(usize, usize)> {
    let mut out = Vec::new();
    for imp in indep::scan_imports(text) {
        if imp.path != spelling {
            continue;
        }
        let line = text.split('\n').nth(imp.line).unwrap_or("");
        let hash_col = line.chars().take_while(|c| *c != '#').count();
        out.push((imp.line, hash_col));
        // lex the remainder of the line with the '#' blanked out
        let blanked: String = line.chars().enumerate().map(|(i, c)| if i == hash_col { ' ' } else { c }).collect();
        for t in indep::lex(&blanked) {
            out.push((imp.line, t.col));
        }
    }
    out
}

pub fn check_scenario(sc: &E3Scenario, rep: &mut RunReport) {
    let model: Vec<(String, Vec<ImportLine>, Vec<String>, bool)> = sc
        .files
        .iter()
        .map(|f| {
            (
                f.path.clone(),
                f.imports.clone(),
                f.defs.iter().filter(|d| d.0).filter_map(|d| d.1.clone()).collect(),
                f.present,
            )
        })
        .collect();
    let reference = reference_closure(&model, sc.root);
    // probes: shapes of the import graph
    {
        let mut indeg: BTreeMap<usize, BTreeSet<usize>> = BTreeMap::new();
        let mut spellings: BTreeMap<(usize, String), BTreeSet<String>> = BTreeMap::new();
        for &f in &reference.reach {
            for imp in &sc.files[f].imports {
                let t = indep::resolve_from_file(&sc.files[f].path, &imp.spelling);
                if let Some(ti) = sc.files.iter().position(|x| indep::norm(&x.path) == t) {
                    indeg.entry(ti).or_default().insert(f);
                    spellings.entry((f, t.clone())).or_default().insert(imp.spelling.clone());
                    if ti == f {
                        rep.probe("self_import");
                    }
                    if ti == sc.root && f != sc.root {
                        rep.probe("cycle_to_root");
                    }
                }
            }
        }
        if indeg.values().any(|s| s.len() >= 2) {
            rep.probe("diamond");
        }
        if spellings.values().any(|s| s.len() >= 2) {
            rep.probe("multi_spelling");
        }
        if reference.reach.len() >= 3 {
            rep.probe("reach>=3");
        }
        if !reference.bad.is_empty() {
            rep.probe("erroneous_import");
        }
        if sc.files.iter().any(|f| !f.present) {
            rep.fault("resolver_miss");
        }
    }

    let texts: Vec<(String, String, bool)> = sc.files.iter().map(|f| (f.path.clone(), f.text.clone(), f.present)).collect();
    let texts_perm: Vec<(String, String, bool)> = sc.files.iter().map(|f| (f.path.clone(), f.text_perm.clone(), f.present)).collect();
    if !sc.root_as_given.is_empty() {
        rep.probe("root_path_not_normalised");
    }
    let r1 = run_resolver_as(&texts, sc.root, &sc.root_as_given);
    let r2 = run_resolver_as(&texts_perm, sc.root, &sc.root_as_given);
    rep.events += 2;

    for (label, r, tx) in [("", &r1, &texts), ("perm:", &r2, &texts_perm)] {
        match r {
            Resolved::ParseFail(i) => {
                // the workload renders only parseable documents; a parse failure is a
                // workload/parser matter, not a resolver verdict: count, do not judge
                rep.probe("parse_fail");
                let _ = i;
            }
            Resolved::Ok(defs) => {
                if !reference.bad.is_empty() {
                    rep.violate(
                        &["C13"],
                        "C13.err-missing",
                        format!("{label}resolver returned Ok although the reference finds erroneous imports {:?}", reference.bad),
                    );
                    continue;
                }
                // expected multiset: root's own definitions + imported set
                let mut expect: BTreeMap<(usize, bool, Option<String>), i64> = BTreeMap::new();
                for d in &sc.files[sc.root].defs {
                    *expect.entry((sc.root, d.0, d.1.clone())).or_insert(0) += 1;
                }
                for (f, n) in &reference.imported {
                    *expect.entry((*f, true, Some(n.clone()))).or_insert(0) += 1;
                }
                let mut got: BTreeMap<(usize, bool, Option<String>), i64> = BTreeMap::new();
                for d in defs {
                    *got.entry(d.clone()).or_insert(0) += 1;
                }
                let mut missing = Vec::new();
                let mut extra = Vec::new();
                let mut dup = Vec::new();
                for (k, n) in &expect {
                    match got.get(k) {
                        None => missing.push(k.clone()),
                        Some(g) if g > n => dup.push(k.clone()),
                        Some(g) if g < n => missing.push(k.clone()),
                        _ => {}
                    }
                }
                for k in got.keys() {
                    if !expect.contains_key(k) {
                        extra.push(k.clone());
                    }
                }
                if !missing.is_empty() {
                    rep.violate(&["C13"], "C13.closure-missing", format!("{label}missing definitions (file,frag,name): {missing:?}"));
                }
                if !dup.is_empty() {
                    rep.violate(&["C13"], "C13.closure-duplicate", format!("{label}definitions present more than once: {dup:?}"));
                }
                if !extra.is_empty() {
                    rep.violate(&["C13"], "C13.closure-extra", format!("{label}definitions not in the reference closure: {extra:?}"));
                }
            }
            Resolved::Err(pos) => {
                if reference.bad.is_empty() {
                    rep.violate(&["C13"], "C13.err-spurious", format!("{label}resolver failed at {pos:?} although every import resolves in the reference"));
                    continue;
                }
                match pos {
                    None => rep.violate(&["C13"], "C13.err-unpositioned", format!("{label}import error carries no position")),
                    Some((file, line, col)) => {
                        let ok = reference.bad.iter().any(|b| {
                            b.file == *file && import_line_positions(&tx[b.file].1, &b.spelling).contains(&(*line, *col))
                        });
                        if !ok {
                            rep.violate(
                                &["C13"],
                                "C13.err-position",
                                format!("{label}error position file={file} {line}:{col} is not a token start on an erroneous #import line; erroneous: {:?}", reference.bad),
                            );
                        }
                    }
                }
            }
        }
    }
    // order independence of the resulting *set*
    if let (Resolved::Ok(a), Resolved::Ok(b)) = (&r1, &r2) {
        let sa: BTreeSet<_> = a.iter().cloned().collect();
        let sb: BTreeSet<_> = b.iter().cloned().collect();
        if sa != sb {
            let d: Vec<_> = sa.symmetric_difference(&sb).cloned().collect();
            rep.violate(&["C13"], "C13.order-dependence", format!("permuting import lines changes the resolved set: {d:?}"));
        }
    }
    if matches!(r1, Resolved::Ok(_)) != matches!(r2, Resolved::Ok(_)) && !matches!(r1, Resolved::ParseFail(_)) && !matches!(r2, Resolved::ParseFail(_)) {
        rep.violate(&["C13"], "C13.order-dependence-verdict", "permuting import lines flips Ok/Err".into());
    }
    // the two texts differ in the order of their import lines only: if one of them is refused
    // before resolution starts (merging of import lines, wildcard/names exclusivity) so is the other
    if matches!(r1, Resolved::ParseFail(_)) != matches!(r2, Resolved::ParseFail(_)) {
        rep.violate(&["C13"], "C13.order-dependence-verdict", "permuting import lines decides whether the document's import lines are accepted at all".into());
    }
    if matches!(r1, Resolved::ParseFail(_)) {
        rep.probe("import_lines_refused");
    }
}

pub struct E3;

impl Engine for E3 {
    fn name(&self) -> &'static str {
        "e3"
    }
    fn generate(&self, run_seed: u64, _variant: &str, tier: Tier) -> Value {
        serde_json::to_value(gen_scenario(run_seed, tier)).unwrap()
    }
    fn execute(&self, scenario: &Value) -> RunReport {
        let sc: E3Scenario = serde_json::from_value(scenario.clone()).expect("scenario");
        let hs = sc.hash_seed;
        let sc2 = sc.clone();
        let mut rep = hashseed::on_fresh_instance(hs, move || {
            let mut rep = RunReport::default();
            check_scenario(&sc2, &mut rep);
            rep
        });
        rep.hash_seeds.push(hs);
        let n_imports: usize = sc.files.iter().map(|f| f.imports.len()).sum();
        // signature: shape of the import graph + which files are missing
        let mut sig = rng::fnv("e3");
        for f in &sc.files {
            sig = rng::mix(sig, f.present as u64);
            for i in &f.imports {
                sig = rng::mix(sig, rng::fnv(&indep::resolve_from_file(&f.path, &i.spelling)));
                sig = rng::mix(sig, i.names.as_ref().map(|n| n.len() as u64 + 1).unwrap_or(0));
            }
            sig = rng::mix(sig, 0xff);
        }
        rep.signature = rng::mix(sig, sc.root as u64);
        rep.digest = rng::fnv(&format!("{:?}", rep.violations.iter().map(|v| (&v.class, &v.detail)).collect::<Vec<_>>()));
        rep.nontrivial = n_imports >= 2;
        rep.sample = Some(json!({
            "root": sc.files[sc.root].path,
            "files": sc.files.iter().map(|f| json!({"path": f.path, "present": f.present,
                "imports": f.imports.iter().map(|i| wgen::render_import(i, 1)).collect::<Vec<_>>(),
                "fragments": f.defs.iter().filter(|d| d.0).map(|d| d.1.clone()).collect::<Vec<_>>()})).collect::<Vec<_>>()
        }));
        rep
    }
    fn shrink(&self, scenario: &Value) -> Vec<Value> {
        let sc: E3Scenario = serde_json::from_value(scenario.clone()).expect("scenario");
        let mut out = Vec::new();
        // the scenario keeps model and text side by side; shrinking re-renders the text
        // from a reduced model (definitions are kept as text: we only drop whole files,
        // import lines and names)
        // 1. drop a non-root file (imports pointing at it become dangling -> usually changes class; still tried)
        for i in (0..sc.files.len()).rev() {
            if i == sc.root {
                continue;
            }
            let mut s = sc.clone();
            s.files.remove(i);
            if sc.root > i {
                s.root -= 1;
            }
            out.push(s);
        }
        // 2. drop an import line (text edited by removing the matching line)
        for fi in 0..sc.files.len() {
            for ii in 0..sc.files[fi].imports.len() {
                let mut s = sc.clone();
                let imp = s.files[fi].imports.remove(ii);
                let line = wgen::render_import(&imp, 0);
                let key = line.trim().to_string();
                let file = &mut s.files[fi];
                for t in [&mut file.text, &mut file.text_perm] {
                    let mut removed = false;
                    *t = t
                        .split('\n')
                        .filter(|l| {
                            let norm: String = l.trim().replace(", ", ",");
                            if !removed && norm == key.replace(", ", ",") {
                                removed = true;
                                false
                            } else {
                                true
                            }
                        })
                        .collect::<Vec<_>>()
                        .join("\n");
                }
                out.push(s);
            }
        }
        // 3. make every file present
        if sc.files.iter().any(|f| !f.present) {
            let mut s = sc.clone();
            for f in s.files.iter_mut() {
                f.present = true;
            }
            out.push(s);
        }
        out.into_iter().map(|s| serde_json::to_value(s).unwrap()).collect()
    }
}
