//! The loader's exported C ABI, called the way `packages/loader-core` calls it:
//! every string crosses through `alloc_string` / copy / call / `free_string`.

use graphql_loader as gl;

pub struct AbiStr {
    ptr: *mut u8,
    len: usize,
}

impl AbiStr {
    pub fn new(s: &str) -> Self {
        let len = s.len();
        let ptr = gl::alloc_string(len);
        if len > 0 {
            unsafe { std::ptr::copy_nonoverlapping(s.as_ptr(), ptr, len) };
        }
        AbiStr { ptr, len }
    }
}

impl Drop for AbiStr {
    fn drop(&mut self) {
        unsafe { gl::free_string(self.ptr, self.len) };
    }
}

pub fn init_once() {
    use std::sync::Once;
    static ONCE: Once = Once::new();
    ONCE.call_once(|| gl::init(0));
}

/// What `init(1)` does on top of `init(0)`: debug logging on.  The logger itself is installed once
/// per process; the level is process-global and is switched per scenario.
pub fn set_debug_logging(on: bool) {
    log::set_max_level(if on { log::LevelFilter::Debug } else { log::LevelFilter::Off });
}

/// `getLog()` of the host: moves the collected log into the result buffer.
pub fn drain_log() {
    gl::get_log();
}

pub fn load_config(text: &str) -> bool {
    let s = AbiStr::new(text);
    gl::load_config(s.ptr, s.len)
}

pub fn initiate_task(file: &str, src: &str) -> usize {
    let f = AbiStr::new(file);
    let s = AbiStr::new(src);
    gl::initiate_task(f.ptr, f.len, s.ptr, s.len)
}

pub fn get_required_files(task: usize) -> bool {
    gl::get_required_files(task)
}

pub fn load_file(task: usize, file: &str, src: &str) -> bool {
    let f = AbiStr::new(file);
    let s = AbiStr::new(src);
    gl::load_file(task, f.ptr, f.len, s.ptr, s.len)
}

pub fn emit_js(task: usize) -> bool {
    gl::emit_js(task)
}

pub fn free_task(task: usize) {
    gl::free_task(task)
}

/// `bin.readResult()`: copy of the last result.
pub fn read_result() -> String {
    let ptr = gl::get_result_ptr();
    let len = gl::get_result_size();
    let bytes = unsafe { std::slice::from_raw_parts(ptr, len) };
    String::from_utf8_lossy(bytes).into_owned()
}
