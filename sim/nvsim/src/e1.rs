//! E1 loader-sim: the real loader C ABI driven by a simulated bundler host.
//!
//! A run produces a *flat call history*; every oracle is a pure function of
//! (scenario, history).  L2 scenarios contain the call sequence directly, L1
//! scenarios contain a host world (files with versions, modules, schedule seed,
//! fault plan) and the history is what the ported `transform()` loop issues under
//! the seeded scheduler.

use crate::abi;
use crate::hashseed;
use crate::indep;
use crate::rng::{self, Rng};
use crate::sim::{Engine, RunReport, Tier};
use crate::wgen::{self, OpsOpts};
use serde::{Deserialize, Serialize};
use serde_json::{Value, json};
use std::collections::{BTreeMap, BTreeSet, HashMap};
use std::path::{Path, PathBuf};

// ------------------------------------------------------------------ scenario

#[derive(Clone, Debug, Serialize, Deserialize)]
pub struct FileVersion {
    pub text: String,
    /// import path strings of a model-rendered text; `None` = corrupted text
    pub imports: Option<Vec<String>>,
}

#[derive(Clone, Debug, Serialize, Deserialize)]
pub struct HostFile {
    pub path: String,
    pub versions: Vec<FileVersion>,
    /// readFile rejects (file does not exist on the host)
    pub exists: bool,
}

#[derive(Clone, Debug, Serialize, Deserialize, PartialEq, Eq)]
pub enum TaskRef {
    /// the id returned by the `initiate` of this slot (0 when that failed)
    Slot(usize),
    /// literal id
    Raw(usize),
    /// an id the instance has not issued at the time of the call: max issued + k
    Unissued(usize),
}

#[derive(Clone, Debug, Serialize, Deserialize)]
pub enum Op {
    Initiate { slot: usize, file: String, src: String, imports: Option<Vec<String>> },
    Required { t: TaskRef },
    Load { t: TaskRef, file: String, src: String, imports: Option<Vec<String>> },
    Emit { t: TaskRef },
    Free { t: TaskRef },
    ReadResult,
    LoadConfig { text: String },
}

#[derive(Clone, Debug, Serialize, Deserialize)]
pub enum EnvEvent {
    /// the file on the host changes to another version (watch mode)
    Edit { file: usize, version: usize },
    /// a file nobody asked for is supplied to a module's task
    Unrequested { module: usize, file: usize },
    /// `load_config` is called again (another module's burst)
    ConfigReload { config: usize },
    /// the host reads the last result late
    LateRead,
}

#[derive(Clone, Debug, Serialize, Deserialize)]
pub enum ReadFault {
    Fail,
    /// completion delivered twice
    Dup,
    /// an older/newer version than the current one is delivered
    Version(usize),
}

#[derive(Clone, Debug, Serialize, Deserialize, Default)]
pub struct L1Plan {
    /// roots (file indices) of the modules being built
    pub modules: Vec<usize>,
    pub sched_seed: u64,
    /// PCT-style priorities instead of uniform choice
    pub pct: bool,
    /// (host step, event)
    pub env: Vec<(usize, EnvEvent)>,
    /// (ordinal of the file-read completion, fault)
    pub read_faults: Vec<(usize, ReadFault)>,
    /// index into `configs` loaded by the first module (None = never)
    pub config: Option<usize>,
}

#[derive(Clone, Debug, Serialize, Deserialize)]
pub struct E1Scenario {
    pub variant: String,
    pub hash_seed: u64,
    pub alt_hash_seed: u64,
    pub files: Vec<HostFile>,
    pub configs: Vec<String>,
    pub ops: Vec<Op>,
    pub l1: Option<L1Plan>,
    /// the instance was initialised with debug logging on (`init(1)`, NITROGQL_DEBUG of the hosts)
    #[serde(default)]
    pub debug_log: bool,
}

#[derive(Clone, Debug, Serialize, Deserialize, PartialEq, Eq)]
pub struct Resp {
    /// bool as 0/1, task id for initiate, -1 for unit
    pub ret: i64,
    /// result text read right after a result-setting call
    pub result: Option<String>,
}

#[derive(Clone, Debug, Serialize, Deserialize)]
pub struct Call {
    pub op: Op,
    /// the concrete task id passed (after resolving the TaskRef); 0 for calls without id
    pub id: usize,
    pub resp: Resp,
    /// fault kind that produced this call, if any (evidence/signature only)
    pub fault: Option<String>,
    /// acting module (L1), for the signature
    pub actor: usize,
}

// ------------------------------------------------------------------ instance

/// One loader instance as seen by the host: executes ops against the real ABI and
/// keeps the little bookkeeping a host has (slot -> id).
pub struct Instance {
    pub slot_id: BTreeMap<usize, usize>,
    pub issued: Vec<usize>,
    pub result_exists: bool,
}

impl Instance {
    pub fn new() -> Self {
        abi::init_once();
        Instance { slot_id: BTreeMap::new(), issued: Vec::new(), result_exists: false }
    }
    pub fn resolve(&self, t: &TaskRef) -> usize {
        match t {
            TaskRef::Slot(s) => self.slot_id.get(s).copied().unwrap_or(0),
            TaskRef::Raw(v) => *v,
            TaskRef::Unissued(k) => self.issued.iter().copied().max().unwrap_or(0).wrapping_add(1 + *k),
        }
    }
    pub fn exec(&mut self, op: &Op) -> (usize, Resp) {
        match op {
            Op::Initiate { slot, file, src, .. } => {
                let id = abi::initiate_task(file, src);
                self.slot_id.insert(*slot, id);
                let result = if id == 0 {
                    self.result_exists = true;
                    Some(abi::read_result())
                } else {
                    self.issued.push(id);
                    None
                };
                (id, Resp { ret: id as i64, result })
            }
            Op::Required { t } => {
                let id = self.resolve(t);
                let ok = abi::get_required_files(id);
                self.result_exists = true;
                (id, Resp { ret: ok as i64, result: Some(abi::read_result()) })
            }
            Op::Load { t, file, src, .. } => {
                let id = self.resolve(t);
                let ok = abi::load_file(id, file, src);
                let result = if !ok {
                    self.result_exists = true;
                    Some(abi::read_result())
                } else {
                    None
                };
                (id, Resp { ret: ok as i64, result })
            }
            Op::Emit { t } => {
                let id = self.resolve(t);
                let ok = abi::emit_js(id);
                self.result_exists = true;
                (id, Resp { ret: ok as i64, result: Some(abi::read_result()) })
            }
            Op::Free { t } => {
                let id = self.resolve(t);
                abi::free_task(id);
                (id, Resp { ret: -1, result: None })
            }
            Op::ReadResult => {
                if self.result_exists {
                    (0, Resp { ret: -1, result: Some(abi::read_result()) })
                } else {
                    (0, Resp { ret: -1, result: None })
                }
            }
            Op::LoadConfig { text } => {
                let ok = abi::load_config(text);
                (0, Resp { ret: ok as i64, result: None })
            }
        }
    }
}

fn op_slot(op: &Op) -> Option<usize> {
    match op {
        Op::Initiate { slot, .. } => Some(*slot),
        Op::Required { t } | Op::Load { t, .. } | Op::Emit { t } | Op::Free { t } => match t {
            TaskRef::Slot(s) => Some(*s),
            _ => None,
        },
        _ => None,
    }
}

fn op_kind(op: &Op) -> &'static str {
    match op {
        Op::Initiate { .. } => "initiate",
        Op::Required { .. } => "required",
        Op::Load { .. } => "load",
        Op::Emit { .. } => "emit",
        Op::Free { .. } => "free",
        Op::ReadResult => "read_result",
        Op::LoadConfig { .. } => "load_config",
    }
}

// ------------------------------------------------------------------ L1 host

#[derive(Clone, Debug, PartialEq, Eq)]
enum Pending {
    Start(usize),
    ConfigRead(usize),
    Status(usize),
    FileRead { module: usize, file: String, round: usize },
}

struct ModuleState {
    slot: usize,
    rejected: bool,
    done: bool,
    outstanding: usize,
    rounds: usize,
    /// a fault touched this module (progress bound not demanded)
    faulted: bool,
    freed: bool,
}

/// Runs the ported `transform()` loops of all modules under the seeded scheduler.
pub fn run_l1(sc: &E1Scenario, plan: &L1Plan, inst: &mut Instance, rep: &mut RunReport) -> Vec<Call> {
    run_l1_with_slot_base(sc, plan, inst, rep, 0)
}

pub fn run_l1_with_slot_base(sc: &E1Scenario, plan: &L1Plan, inst: &mut Instance, rep: &mut RunReport, slot_base: usize) -> Vec<Call> {
    let mut calls: Vec<Call> = Vec::new();
    let mut sched = Rng::new(plan.sched_seed);
    let mut cur_version: Vec<usize> = sc.files.iter().map(|_| 0).collect();
    let path_idx: HashMap<String, usize> = sc.files.iter().enumerate().map(|(i, f)| (f.path.clone(), i)).collect();
    let mut mods: Vec<ModuleState> = plan
        .modules
        .iter()
        .enumerate()
        .map(|(i, _)| ModuleState { slot: slot_base + i, rejected: false, done: false, outstanding: 0, rounds: 0, faulted: false, freed: false })
        .collect();
    let mut pending: Vec<Pending> = (0..mods.len()).map(Pending::Start).collect();
    // JS: `lastLoadedConfigPath` is assigned after the await, so several modules may load the config
    let mut last_loaded_config = false;
    let mut read_ordinal = 0usize;
    let mut step = 0usize;
    // PCT: fixed priorities, changed at a few steps
    let mut prio: Vec<u64> = (0..mods.len()).map(|_| sched.next_u64()).collect();
    let change_points: Vec<usize> = (0..2).map(|_| sched.below(30)).collect();

    macro_rules! call {
        ($op:expr, $fault:expr, $actor:expr) => {{
            let op = $op;
            let (id, resp) = inst.exec(&op);
            calls.push(Call { op, id, resp: resp.clone(), fault: $fault, actor: $actor });
            resp
        }};
    }

    while !pending.is_empty() && step < 400 {
        // environment events scheduled for this step
        for (at, ev) in &plan.env {
            if *at != step {
                continue;
            }
            match ev {
                EnvEvent::Edit { file, version } => {
                    if *file < sc.files.len() && *version < sc.files[*file].versions.len() {
                        cur_version[*file] = *version;
                        rep.fault("edit");
                    }
                }
                EnvEvent::Unrequested { module, file } => {
                    if *module < mods.len() && *file < sc.files.len() && inst.slot_id.contains_key(&mods[*module].slot) {
                        let f = &sc.files[*file];
                        let v = &f.versions[cur_version[*file]];
                        let op = Op::Load { t: TaskRef::Slot(mods[*module].slot), file: f.path.clone(), src: v.text.clone(), imports: v.imports.clone() };
                        call!(op, Some("unrequested".into()), *module);
                        rep.fault("unrequested");
                        mods[*module].faulted = true;
                    }
                }
                EnvEvent::ConfigReload { config } => {
                    if *config < sc.configs.len() {
                        call!(Op::LoadConfig { text: sc.configs[*config].clone() }, Some("config_reload".into()), usize::MAX);
                        rep.fault("config_reload");
                    }
                }
                EnvEvent::LateRead => {
                    if inst.result_exists {
                        call!(Op::ReadResult, Some("late_read".into()), usize::MAX);
                        rep.fault("late_read");
                    }
                }
            }
        }
        if plan.pct && change_points.contains(&step) {
            let k = sched.below(prio.len());
            prio[k] = sched.next_u64() >> 8;
        }
        // pick the next event
        let pick = if plan.pct {
            let owner = |p: &Pending| match p {
                Pending::Start(m) | Pending::ConfigRead(m) | Pending::Status(m) => *m,
                Pending::FileRead { module, .. } => *module,
            };
            let best = pending.iter().map(|p| prio[owner(p)]).max().unwrap();
            let cands: Vec<usize> = pending.iter().enumerate().filter(|(_, p)| prio[owner(p)] == best).map(|(i, _)| i).collect();
            cands[sched.below(cands.len())]
        } else {
            sched.below(pending.len())
        };
        let ev = pending.remove(pick);
        step += 1;
        match ev {
            Pending::Start(m) => {
                let root = plan.modules[m];
                let f = &sc.files[root];
                // the bundler hands the module source it read itself (current version)
                let v = &f.versions[cur_version[root]];
                let r = call!(Op::Initiate { slot: mods[m].slot, file: f.path.clone(), src: v.text.clone(), imports: v.imports.clone() }, None, m);
                if r.ret == 0 {
                    mods[m].rejected = true;
                    mods[m].done = true;
                    continue;
                }
                if plan.config.is_some() && !last_loaded_config {
                    pending.push(Pending::ConfigRead(m));
                } else {
                    pending.push(Pending::Status(m));
                }
            }
            Pending::ConfigRead(m) => {
                let c = plan.config.unwrap();
                call!(Op::LoadConfig { text: sc.configs[c].clone() }, None, m);
                last_loaded_config = true;
                pending.push(Pending::Status(m));
            }
            Pending::Status(m) => {
                let r = call!(Op::Required { t: TaskRef::Slot(mods[m].slot) }, None, m);
                mods[m].rounds += 1;
                if r.ret == 0 {
                    mods[m].rejected = true;
                    mods[m].done = true;
                    continue;
                }
                let files: Vec<String> = r.result.unwrap_or_default().split('\n').filter(|s| !s.is_empty()).map(String::from).collect();
                if files.is_empty() {
                    call!(Op::Emit { t: TaskRef::Slot(mods[m].slot) }, None, m);
                    call!(Op::Free { t: TaskRef::Slot(mods[m].slot) }, None, m);
                    mods[m].freed = true;
                    mods[m].done = true;
                } else {
                    mods[m].outstanding = files.len();
                    let round = mods[m].rounds;
                    for f in files {
                        pending.push(Pending::FileRead { module: m, file: f, round });
                    }
                }
            }
            Pending::FileRead { module: m, file, round } => {
                let ord = read_ordinal;
                read_ordinal += 1;
                let fault = plan.read_faults.iter().find(|(k, _)| *k == ord).map(|(_, f)| f.clone());
                let host = path_idx.get(&file).map(|i| &sc.files[*i]).filter(|f| f.exists);
                let mut deliver: Vec<(FileVersion, Option<String>)> = Vec::new();
                let mut failed = false;
                match (host, &fault) {
                    (None, _) => {
                        failed = true;
                        rep.fault("read_enoent");
                    }
                    (Some(_), Some(ReadFault::Fail)) => {
                        failed = true;
                        rep.fault("read_fail");
                    }
                    (Some(h), Some(ReadFault::Dup)) => {
                        let v = h.versions[cur_version[path_idx[&file]]].clone();
                        deliver.push((v.clone(), None));
                        deliver.push((v, Some("dup".into())));
                        rep.fault("dup");
                    }
                    (Some(h), Some(ReadFault::Version(k))) => {
                        let k = *k % h.versions.len();
                        deliver.push((h.versions[k].clone(), Some("resupply_version".into())));
                        rep.fault("version_skew");
                    }
                    (Some(h), None) => deliver.push((h.versions[cur_version[path_idx[&file]]].clone(), None)),
                }
                if fault.is_some() || failed {
                    mods[m].faulted = true;
                }
                for (v, tag) in deliver {
                    // later completions of a rejected Promise.all still call supplyFile
                    let r = call!(Op::Load { t: TaskRef::Slot(mods[m].slot), file: file.clone(), src: v.text.clone(), imports: v.imports.clone() }, tag, m);
                    if r.ret == 0 {
                        mods[m].rejected = true;
                    }
                }
                if failed {
                    mods[m].rejected = true;
                }
                if round == mods[m].rounds {
                    mods[m].outstanding -= 1;
                    if mods[m].outstanding == 0 {
                        if mods[m].rejected {
                            mods[m].done = true; // task leaked, exactly as the JS hosts do
                        } else {
                            pending.push(Pending::Status(m));
                        }
                    }
                }
            }
        }
    }
    // C19.7 bounded progress once faults stop: an un-faulted module over existing files
    // must be done, within |files| + 1 status rounds
    for (m, st) in mods.iter().enumerate() {
        if st.faulted {
            continue;
        }
        let bound = sc.files.len() + 1;
        if !st.done || st.rounds > bound {
            rep.violate(
                &["C19"],
                "C19.7-progress",
                format!("module {m} (root {}) not finished after {} status rounds (bound {bound}, done={})", sc.files[plan.modules[m]].path, st.rounds, st.done),
            );
        }
    }
    if mods.iter().filter(|m| m.freed).count() >= 2 {
        rep.probe("two_modules_completed");
    }
    if mods.iter().any(|m| m.rejected && !m.freed) {
        rep.probe("leaked_task");
    }
    calls
}

// ------------------------------------------------------------------ library-side emit (C13 at the loader)

struct MapResolver<'a, 'src> {
    map: HashMap<PathBuf, &'a (nitrogql_ast::OperationDocument<'src>, nitrogql_semantics::OperationExtension<'src>)>,
}
impl<'src> nitrogql_semantics::OperationResolver<'src> for MapResolver<'_, 'src> {
    fn resolve(&self, path: &Path) -> Option<(&nitrogql_ast::OperationDocument<'src>, &nitrogql_semantics::OperationExtension<'src>)> {
        self.map.get(path).map(|p| (&p.0, &p.1))
    }
}

/// `print_js(resolve_operation_imports(root, R), config)` through the library, with
/// the simulator's resolver over exactly `files`.
pub fn lib_emit(root: &str, files: &BTreeMap<String, String>, config_text: Option<&str>) -> Result<String, String> {
    let mut parsed = BTreeMap::new();
    for (p, t) in files {
        let doc = nitrogql_parser::parse_operation_document(t).map_err(|e| format!("parse {p}: {e:?}"))?;
        let pe = nitrogql_semantics::resolve_operation_extensions(doc).map_err(|_| format!("ext {p}"))?;
        parsed.insert(p.clone(), pe);
    }
    let resolver = MapResolver { map: parsed.iter().map(|(p, v)| (PathBuf::from(p), v)).collect() };
    let r = parsed.get(root).ok_or("root missing")?;
    let doc = nitrogql_semantics::resolve_operation_imports((Path::new(root), &r.0, &r.1), &resolver).map_err(|_| "import error".to_string())?;
    // the printer requires every spread fragment to be present; a document that
    // lacks one cannot be printed (the loader must answer with an error, not trap)
    if let Some(name) = undefined_spread(&doc) {
        return Err(format!("fragment {name} is spread but not part of the resolved document"));
    }
    let config = match config_text {
        Some(t) => nitrogql_config_file::parse_config(t).unwrap_or_default(),
        None => Default::default(),
    };
    let mut writer = sourcemap_writer::SourceWriter::new();
    nitrogql_printer::print_js_for_operation_document(nitrogql_printer::OperationJSPrinterOptions::from_config(&config), &doc, &mut writer);
    Ok(writer.into_buffers().buffer)
}

fn undefined_spread(doc: &nitrogql_ast::OperationDocument) -> Option<String> {
    use nitrogql_ast::operation::ExecutableDefinition as D;
    use nitrogql_ast::selection_set::{Selection, SelectionSet};
    let defined: Vec<&str> = doc.definitions.iter().filter_map(|d| if let D::FragmentDefinition(f) = d { Some(f.name.name) } else { None }).collect();
    fn rec(s: &SelectionSet, defined: &[&str]) -> Option<String> {
        for sel in &s.selections {
            match sel {
                Selection::Field(f) => {
                    if let Some(ss) = &f.selection_set {
                        if let Some(n) = rec(ss, defined) {
                            return Some(n);
                        }
                    }
                }
                Selection::FragmentSpread(sp) => {
                    if !defined.contains(&sp.fragment_name.name) {
                        return Some(sp.fragment_name.name.to_string());
                    }
                }
                Selection::InlineFragment(i) => {
                    if let Some(n) = rec(&i.selection_set, defined) {
                        return Some(n);
                    }
                }
            }
        }
        None
    }
    for d in &doc.definitions {
        let ss = match d {
            D::OperationDefinition(o) => &o.selection_set,
            D::FragmentDefinition(f) => &f.selection_set,
        };
        if let Some(n) = rec(ss, &defined) {
            return Some(n);
        }
    }
    None
}

// ------------------------------------------------------------------ oracles

fn split_set(s: &str) -> BTreeSet<String> {
    s.split('\n').filter(|x| !x.is_empty()).map(String::from).collect()
}

/// Reference model bookkeeping per slot.
#[derive(Default, Clone)]
struct SlotModel {
    id: usize,
    live: bool,
    root: String,
    /// file name -> (text, imports) of successful loads, latest wins
    supplied: BTreeMap<String, (String, Option<Vec<String>>)>,
}

pub fn check_history(sc: &E1Scenario, calls: &[Call], rep: &mut RunReport) {
    let mut slots: BTreeMap<usize, SlotModel> = BTreeMap::new();
    let mut issued: Vec<usize> = Vec::new();
    let mut last_result: Option<String> = None;
    let mut config: Option<String> = None;
    let c13 = sc.variant == "c13" || sc.variant == "l1" || sc.variant == "l2";
    let mut fresh_compared = 0;
    for (i, c) in calls.iter().enumerate() {
        // --- oracle 2: reference model on ids
        let slot = op_slot(&c.op);
        let live_slot = slot.and_then(|s| slots.get(&s)).filter(|m| m.live && m.id == c.id && c.id != 0).cloned();
        let id_is_live = slots.values().any(|m| m.live && m.id == c.id) && c.id != 0;
        match &c.op {
            Op::Initiate { slot, file, src, imports } => {
                if c.resp.ret != 0 {
                    let id = c.resp.ret as usize;
                    if issued.contains(&id) {
                        rep.violate(&["C19"], "C19.2-id-reuse", format!("call {i}: initiate returned id {id} which this instance issued before"));
                    }
                    issued.push(id);
                    let mut m = SlotModel { id, live: true, root: file.clone(), supplied: BTreeMap::new() };
                    m.supplied.insert(file.clone(), (src.clone(), imports.clone()));
                    slots.insert(*slot, m);
                } else {
                    if c.resp.result.is_none() {
                        rep.violate(&["C19", "C08"], "C19.2-no-error-result", format!("call {i}: initiate failed without an error result"));
                    }
                    if imports.is_some() {
                        // a model-rendered document was refused: parser business, but the
                        // required-set oracle must know the slot is dead
                        rep.probe("initiate_refused_model_text");
                    }
                    slots.insert(*slot, SlotModel { id: 0, live: false, ..Default::default() });
                }
            }
            Op::Required { .. } | Op::Load { .. } | Op::Emit { .. } if !id_is_live => {
                let kind = op_kind(&c.op);
                rep.probe("call_on_dead_id");
                if c.resp.ret != 0 {
                    rep.violate(&["C19"], "C19.2-dead-id-succeeds", format!("call {i}: {kind} on non-live id {} returned success", c.id));
                }
                if c.resp.result.is_none() {
                    rep.violate(&["C19"], "C19.2-no-error-result", format!("call {i}: {kind} on non-live id {} left no error result", c.id));
                }
            }
            Op::Free { .. } => {
                if let Some(s) = slots.values_mut().find(|m| m.live && m.id == c.id && c.id != 0) {
                    s.live = false;
                } else {
                    rep.probe("free_on_dead_id");
                }
            }
            Op::Load { file, src, imports, .. } => {
                if c.resp.ret == 1 {
                    // find the live slot with this id (a Raw ref may name a live task too)
                    if let Some(s) = slots.values_mut().find(|m| m.live && m.id == c.id) {
                        if s.supplied.contains_key(file) {
                            rep.probe("resupply_same_name");
                        }
                        s.supplied.insert(file.clone(), (src.clone(), imports.clone()));
                    }
                }
            }
            Op::LoadConfig { text } => {
                if c.resp.ret == 1 {
                    config = Some(text.clone());
                }
            }
            _ => {}
        }
        // reach probes for the storage-fault slice
        match &c.op {
            Op::Initiate { imports: None, .. } | Op::Load { imports: None, .. } => {
                rep.probe(if c.resp.ret == 0 { "corrupt_text_refused" } else { "corrupt_text_accepted" });
            }
            Op::Emit { .. } => {
                if let Some(m) = &live_slot {
                    if m.supplied.values().any(|v| v.1.is_none()) {
                        rep.probe(if c.resp.ret == 1 { "emit_ok_with_corrupt_text" } else { "emit_error_with_corrupt_text" });
                    }
                }
            }
            Op::LoadConfig { .. } => {
                if c.resp.ret == 0 {
                    rep.probe("config_refused");
                }
            }
            _ => {}
        }
        // --- oracle 3: required set (model-rendered files only)
        if let (Op::Required { .. }, Some(m)) = (&c.op, &live_slot) {
            if c.resp.ret != 1 {
                rep.violate(&["C19"], "C19.3-required-fails-on-live", format!("call {i}: get_required_files failed on live task {}", c.id));
            } else if m.supplied.values().all(|v| v.1.is_some()) && m.supplied.keys().all(|k| *k == indep::norm(k)) {
                // (file names that are not normalised: whether `/a/./b` or `/a/zz/../b` "is" the
                // supplied `/a/b` is not said by the statement; only projection, ids and traps
                // are judged for such tasks)
                let mut expect = BTreeSet::new();
                for (name, (_, imports)) in &m.supplied {
                    for spec in imports.as_ref().unwrap() {
                        expect.insert(indep::resolve_from_file(name, spec));
                    }
                }
                for name in m.supplied.keys() {
                    expect.remove(name);
                }
                let got = split_set(c.resp.result.as_deref().unwrap_or(""));
                if got != expect {
                    rep.violate(
                        &["C19", "C20", "C13"],
                        "C19.3-required-set",
                        format!("call {i}: task {} asks for {:?}, reference says {:?} (supplied {:?})", c.id, got, expect, m.supplied.keys().collect::<Vec<_>>()),
                    );
                }
                if expect.is_empty() {
                    rep.probe("ready");
                }
            }
        }
        // --- C13 at the loader: emit == library print of the seam-resolved document
        if let (Op::Emit { .. }, Some(m), true) = (&c.op, &live_slot, c13) {
            if m.supplied.values().all(|v| v.1.is_some()) {
                let files: BTreeMap<String, String> = m.supplied.iter().map(|(k, v)| (k.clone(), v.0.clone())).collect();
                let expect = lib_emit(&m.root, &files, config.as_deref());
                match (&expect, c.resp.ret) {
                    (Ok(js), 1) => {
                        if Some(js) != c.resp.result.as_ref() {
                            rep.violate(
                                &["C13"],
                                "C13.loader-emit-differs",
                                format!("call {i}: emit_js of task {} differs from print_js(resolve_operation_imports(..)) over the same files", c.id),
                            );
                        }
                        rep.probe("emit_compared_with_library");
                    }
                    (Err(_), 0) => rep.probe("emit_error_agrees"),
                    (Ok(_), _) => rep.violate(&["C13"], "C13.loader-emit-fails", format!("call {i}: emit_js failed ({:?}) where the library resolves and prints", c.resp.result)),
                    (Err(e), _) => rep.violate(&["C13"], "C13.loader-emit-succeeds", format!("call {i}: emit_js succeeded where the library path fails: {e}")),
                }
            }
        }
        // --- oracle 1b: "its emitted module equals the one a fresh task given the same files
        // produces" - a fresh instance (other hash seed) is given the task's current files, each
        // once, root first, and must emit the same module.  (Oracle 1 replays the same calls; this
        // one forgets the history: re-supplies, their order, failed supplies.)
        if let (Op::Emit { .. }, Some(m)) = (&c.op, &live_slot) {
            if fresh_compared < 2 && m.supplied.keys().all(|k| *k == indep::norm(k)) && m.supplied.contains_key(&m.root) {
                fresh_compared += 1;
                let mut ops = vec![];
                if let Some(cfg) = &config {
                    ops.push(Op::LoadConfig { text: cfg.clone() });
                }
                let (rt, ri) = &m.supplied[&m.root];
                ops.push(Op::Initiate { slot: 0, file: m.root.clone(), src: rt.clone(), imports: ri.clone() });
                for (name, (text, imports)) in &m.supplied {
                    if *name != m.root {
                        ops.push(Op::Load { t: TaskRef::Slot(0), file: name.clone(), src: text.clone(), imports: imports.clone() });
                    }
                }
                ops.push(Op::Emit { t: TaskRef::Slot(0) });
                let fresh = run_ops_on_fresh(sc.alt_hash_seed ^ 0xf5e5, ops);
                if let Some(last) = fresh.last() {
                    rep.probe("emit_compared_with_fresh_task_given_the_same_files");
                    if last.ret != c.resp.ret || (last.ret == 1 && last.result != c.resp.result) {
                        rep.violate(
                            &["C19"],
                            "C19.1-fresh-task-differs",
                            format!("call {i}: emit_js of task {} (ret {}) differs from a fresh task that is given the same files once each (ret {}); files {:?}", c.id, c.resp.ret, last.ret, m.supplied.keys().collect::<Vec<_>>()),
                        );
                    }
                }
            }
        }
        // --- C13 end to end through the host protocol: when every host file exists and nothing
        // was faulted (c13 class, L1), the module the host finally emits is the library print of
        // the document resolved over ALL host files - the loader must have asked for every file
        if let (Op::Emit { .. }, Some(m), true, true) = (&c.op, &live_slot, sc.variant == "c13", sc.l1.is_some()) {
            let all: BTreeMap<String, String> = sc.files.iter().filter(|f| f.exists).map(|f| (f.path.clone(), f.versions[0].text.clone())).collect();
            if sc.files.iter().all(|f| f.exists && f.versions.len() == 1) {
                match (lib_emit(&m.root, &all, config.as_deref()), c.resp.ret) {
                    (Ok(js), 1) => {
                        if Some(&js) != c.resp.result.as_ref() {
                            rep.violate(&["C13"], "C13.loader-protocol-result-differs", format!("call {i}: the module emitted after the host protocol differs from the resolution over all host files"));
                        }
                        rep.probe("protocol_end_to_end_compared");
                    }
                    (Ok(_), _) => rep.violate(
                        &["C13", "C20"],
                        "C13.loader-protocol-misses-file",
                        format!("call {i}: every import of {} resolves on the host, but after the host protocol emit_js fails: {:?} (supplied {:?})", m.root, c.resp.result, m.supplied.keys().collect::<Vec<_>>()),
                    ),
                    _ => {}
                }
            }
        }
        // --- oracle 4: last result
        match &c.op {
            Op::ReadResult => {
                if c.resp.result != last_result {
                    rep.violate(
                        &["C19"],
                        "C19.4-last-result",
                        format!("call {i}: late read returns {:?}, the most recent result was {:?}", c.resp.result.as_ref().map(|s| s.len()), last_result.as_ref().map(|s| s.len())),
                    );
                }
            }
            _ => {
                if c.resp.result.is_some() {
                    last_result = c.resp.result.clone();
                }
            }
        }
    }
}

/// Projection of the history on one slot: its own calls plus every load_config.
fn projection(calls: &[Call], slot: usize) -> Vec<(usize, Op)> {
    calls
        .iter()
        .enumerate()
        .filter(|(_, c)| op_slot(&c.op) == Some(slot) || matches!(c.op, Op::LoadConfig { .. }))
        .map(|(i, c)| (i, c.op.clone()))
        .collect()
}

fn run_ops_on_fresh(hash_seed: u64, ops: Vec<Op>) -> Vec<Resp> {
    hashseed::on_fresh_instance(hash_seed, move || {
        let mut inst = Instance::new();
        ops.iter().map(|op| inst.exec(op).1).collect()
    })
}

fn compare_resp(op: &Op, a: &Resp, b: &Resp) -> Option<String> {
    match op {
        Op::Initiate { .. } => {
            if (a.ret == 0) != (b.ret == 0) {
                return Some(format!("initiate success differs: {} vs {}", a.ret, b.ret));
            }
        }
        Op::Required { .. } => {
            if a.ret != b.ret {
                return Some(format!("required ret {} vs {}", a.ret, b.ret));
            }
            if a.ret == 1 && split_set(a.result.as_deref().unwrap_or("")) != split_set(b.result.as_deref().unwrap_or("")) {
                return Some(format!("required set {:?} vs {:?}", a.result, b.result));
            }
        }
        Op::Emit { .. } => {
            if a.ret != b.ret {
                return Some(format!("emit ret {} vs {}", a.ret, b.ret));
            }
            if a.ret == 1 && a.result != b.result {
                return Some("emitted module text differs".into());
            }
        }
        Op::Load { .. } | Op::LoadConfig { .. } => {
            if a.ret != b.ret {
                return Some(format!("ret {} vs {}", a.ret, b.ret));
            }
        }
        _ => {}
    }
    None
}

pub fn check_projections(sc: &E1Scenario, calls: &[Call], rep: &mut RunReport) {
    let slots: BTreeSet<usize> = calls.iter().filter_map(|c| op_slot(&c.op)).collect();
    let multi = slots.len() >= 2;
    for s in slots {
        let proj = projection(calls, s);
        if proj.len() == calls.len() && !multi {
            // single-task history: the projection is the history itself; only the
            // other-hash-seed comparison is informative
        }
        let ops: Vec<Op> = proj.iter().map(|p| p.1.clone()).collect();
        let same = run_ops_on_fresh(sc.hash_seed, ops.clone());
        let other = run_ops_on_fresh(sc.alt_hash_seed, ops);
        rep.events += 2 * proj.len() as u64;
        for (k, (i, op)) in proj.iter().enumerate() {
            let full = &calls[*i].resp;
            if let Some(d) = compare_resp(op, full, &same[k]) {
                rep.violate(
                    &["C19"],
                    "C19.1-isolation",
                    format!("slot {s}, call {i} ({}): answer in the full history differs from the same calls alone on a fresh instance: {d}", op_kind(op)),
                );
                break;
            }
            if let Some(d) = compare_resp(op, &same[k], &other[k]) {
                rep.violate(
                    &["C17", "C19"],
                    "C17.5-loader-hash-seed",
                    format!("slot {s}, call {i} ({}): answer depends on the hash seed: {d}", op_kind(op)),
                );
                break;
            }
        }
    }
}

// ------------------------------------------------------------------ generator

fn host_files_from_ops(ops: &[crate::model::OpFileModel], rng: &mut Rng, versions: bool) -> Vec<HostFile> {
    ops.iter()
        .map(|f| {
            // some files start with a byte order mark (Node's readFile(.., "utf-8") keeps it)
            let bom = if rng.chance(1, 8) { "\u{feff}" } else { "" };
            let mut vs = vec![FileVersion { text: format!("{bom}{}", wgen::render_op_file(f)), imports: Some(f.imports.iter().map(|i| i.spelling.clone()).collect()) }];
            if versions && rng.chance(1, 3) {
                // a later version: one import line dropped or the style changed
                let mut g = f.clone();
                if !g.imports.is_empty() && rng.chance(1, 2) {
                    let k = rng.below(g.imports.len());
                    g.imports.remove(k);
                } else {
                    g.style = rng.next_u64();
                }
                vs.push(FileVersion { text: wgen::render_op_file(&g), imports: Some(g.imports.iter().map(|i| i.spelling.clone()).collect()) });
            }
            HostFile { path: f.path.clone(), versions: vs, exists: true }
        })
        .collect()
}

const LOADER_CONFIGS: &[&str] = &[
    "schema: ./schema.graphql\ndocuments: ./src/**/*.graphql\n",
    "schema: ./schema.graphql\nextensions:\n  nitrogql:\n    generate:\n      export:\n        defaultExportForOperation: false\n",
    "{\"schema\": \"s.graphql\", \"extensions\": {\"nitrogql\": {\"generate\": {\"name\": {\"capitalizeOperationNames\": true, \"queryVariableSuffix\": \"Q\", \"fragmentVariableSuffix\": \"Doc\"}}}}}\n",
    "extensions:\n  nitrogql:\n    generate:\n      mode: standalone-ts-4.0\n      name:\n        mutationVariableSuffix: Mut\n        subscriptionVariableSuffix: Sub\n      export:\n        variablesType: true\n        operationResultType: true\n",
];

/// Another spelling of an absolute path (`/a/./b`, `/a/zz/../b`): what a host passes when it joins
/// paths without normalising them.
fn respell(rs: &mut Rng, path: &str) -> String {
    let dir = indep::dirname(path);
    let base = indep::basename(path);
    match rs.below(3) {
        0 => format!("{dir}/./{base}"),
        1 => format!("{dir}/zz/../{base}"),
        _ => {
            let last = indep::basename(dir);
            if last.is_empty() { format!("{dir}/./{base}") } else { format!("{dir}/../{last}/{base}") }
        }
    }
}

pub fn gen_scenario(run_seed: u64, variant: &str, tier: Tier) -> E1Scenario {
    let base = Rng::new(run_seed);
    let mut rw = base.fork("workload");
    let mut rs = base.fork("schedule");
    let mut rf = base.fork("faults");
    let schema = if rw.chance(2, 3) { wgen::tiny_schema() } else { wgen::gen_schema(&mut base.fork("schema"), &Default::default()) };
    let with_errors = variant != "l1" || rw.chance(1, 4);
    let o = OpsOpts {
        max_files: if tier == Tier::Thorough { 6 } else { 5 },
        min_files: 1,
        dangling_pct: if with_errors { 6 } else { 0 },
        missing_pct: if with_errors { 6 } else { 0 },
        repeats: true,
        cycles: true,
        plain: rw.chance(1, 3),
        closed_imports: rw.chance(1, 2),
        cover_fragments: false,
        name_collisions: variant != "c08" && rw.chance(1, 3),
        mixed_wildcard: false,
        dirs: vec!["/proj/src".into(), "/proj/src/a".into(), "/proj/src/a/b".into(), "/proj/lib".into()],
    };
    let ops_model = wgen::gen_ops(&mut rw, &schema, &o);
    let files = host_files_from_ops(&ops_model, &mut rw, true);
    let configs: Vec<String> = LOADER_CONFIGS.iter().map(|s| s.to_string()).collect();
    let mut files = files;
    let mut configs = configs;
    if variant == "c08" {
        // storage faults: some versions of some files (and some config texts) are corrupted
        // the way disks and editors do it; the host decodes them as UTF-8 with replacement,
        // like `readFile(f, "utf-8")`
        let all: crate::sandbox::Tree = files.iter().map(|f| (f.path.clone(), f.versions[0].text.clone().into_bytes())).collect();
        let n = rf.range(1, 3);
        for _ in 0..n {
            let fi = rf.below(files.len());
            let orig = files[fi].versions[0].text.clone();
            let kind = *rf.pick(&["truncate", "truncate", "bitflip", "bitflip", "splice", "empty", "badutf8", "unispace", "token_subst", "token_subst", "token_insert", "token_insert", "paste_spread", "paste_spread"]);
            let c = crate::e2::Corruption { path: files[fi].path.clone(), kind: kind.into(), a: rf.below(orig.len().max(1)), b: rf.below(8) };
            let mut t: crate::sandbox::Tree = [(files[fi].path.clone(), orig.into_bytes())].into_iter().collect();
            if crate::e2::corrupt(&mut t, &c, &all) {
                let text = String::from_utf8_lossy(&t[&files[fi].path]).into_owned();
                let v = FileVersion { text, imports: None };
                if rf.chance(1, 2) {
                    files[fi].versions[0] = v;
                } else {
                    files[fi].versions.push(v);
                }
            }
        }
        if rf.chance(1, 2) {
            let ci = rf.below(configs.len());
            let orig = configs[ci].clone();
            let k = rf.below(orig.len().max(1));
            let mut b = orig.into_bytes();
            match rf.below(3) {
                0 => b.truncate(k),
                1 => b[k] ^= 1 << rf.below(8),
                _ => {
                    b.truncate(k);
                    b.extend_from_slice(b": [ {");
                }
            }
            configs[ci] = String::from_utf8_lossy(&b).into_owned();
        }
    }
    let mut sc = E1Scenario {
        variant: variant.to_string(),
        hash_seed: base.fork("hash").next_u64(),
        alt_hash_seed: base.fork("hash2").next_u64(),
        files,
        configs,
        ops: vec![],
        l1: None,
        debug_log: base.fork("debug_log").chance(1, 5),
    };
    let l1 = match variant {
        "l1" => true,
        "l2" => false,
        _ => rw.chance(1, 2),
    };
    if l1 {
        let n_mod = rs.range(1, if tier == Tier::Thorough { 6 } else { 4 });
        let modules: Vec<usize> = (0..n_mod).map(|_| rs.below(sc.files.len())).collect();
        let mut plan = L1Plan { modules, sched_seed: rs.next_u64(), pct: rs.chance(1, 3), config: rs.chance(1, 2).then(|| rs.below(sc.configs.len())), ..Default::default() };
        // fault mix (swarm): each kind enabled for a subset of runs
        if variant == "c08" {
            plan.config = Some(rs.below(sc.configs.len()));
        }
        let faulty = variant != "c13" && rf.chance(2, 3);
        if faulty {
            let kinds: Vec<bool> = (0..6).map(|_| rf.chance(1, 2)).collect();
            if kinds[0] {
                plan.read_faults.push((rf.below(6), ReadFault::Fail));
            }
            if kinds[1] {
                plan.read_faults.push((rf.below(6), ReadFault::Dup));
            }
            if kinds[2] {
                plan.read_faults.push((rf.below(6), ReadFault::Version(rf.below(2))));
            }
            if kinds[3] {
                let f = rf.below(sc.files.len());
                let nv = sc.files[f].versions.len();
                plan.env.push((rf.below(12), EnvEvent::Edit { file: f, version: rf.below(nv) }));
            }
            if kinds[4] {
                plan.env.push((rf.range(1, 12), EnvEvent::Unrequested { module: rf.below(n_mod), file: rf.below(sc.files.len()) }));
            }
            if kinds[5] {
                plan.env.push((rf.range(1, 12), EnvEvent::ConfigReload { config: rf.below(sc.configs.len()) }));
            }
            if rf.chance(1, 3) {
                plan.env.push((rf.range(1, 14), EnvEvent::LateRead));
            }
            if rf.chance(1, 10) {
                let f = rf.below(sc.files.len());
                sc.files[f].exists = false;
            }
        }
        sc.l1 = Some(plan);
    } else {
        // L2: adversarial history
        let len = if tier == Tier::Thorough { rs.range(3, 40) } else { rs.range(3, 28) };
        let mut next_slot = 0usize;
        let mut live: Vec<usize> = Vec::new();
        let mut freed: Vec<usize> = Vec::new();
        let mut just_freed: Option<usize> = None;
        let mut just_failed = false;
        let mut ops = Vec::new();
        let adversarial = variant != "c13";
        for _ in 0..len {
            let jfail = std::mem::take(&mut just_failed);
            let pick_ref = |rs: &mut Rng, live: &Vec<usize>, freed: &Vec<usize>, just_freed: Option<usize>| -> TaskRef {
                if adversarial {
                    // right after a refused initiate: the id that call may have consumed
                    if jfail && rs.chance(2, 3) {
                        return TaskRef::Unissued(rs.below(2));
                    }
                    if let Some(s) = just_freed {
                        if rs.chance(1, 2) {
                            return TaskRef::Slot(s);
                        }
                    }
                    match rs.below(20) {
                        0 => return TaskRef::Raw(0),
                        1 => return TaskRef::Raw(usize::MAX),
                        2 => return TaskRef::Unissued(rs.below(3)),
                        3 if !freed.is_empty() => return TaskRef::Slot(*rs.pick(freed)),
                        _ => {}
                    }
                }
                if live.is_empty() { TaskRef::Unissued(0) } else { TaskRef::Slot(*rs.pick(live)) }
            };
            let w = if live.is_empty() { [10, 1, 1, 1, 1, 1, 1] } else { [3, 6, 8, 4, 2, 1, 1] };
            let choice = rs.weighted(&w);
            let jf = just_freed.take();
            match choice {
                0 => {
                    if next_slot >= 4 && !adversarial {
                        continue;
                    }
                    let f = rs.below(sc.files.len());
                    let v = rs.below(sc.files[f].versions.len());
                    let fv = &sc.files[f].versions[v];
                    if adversarial && rs.chance(1, 8) {
                        // a root file the parser refuses (plain syntax errors): the task must not exist
                        let src = *rs.pick(&["query Broken {\n  version\n", "}", "fragment F on", "query Q { a { } }", "#import X from\nquery {"]);
                        ops.push(Op::Initiate { slot: next_slot, file: sc.files[f].path.clone(), src: src.into(), imports: None });
                        freed.push(next_slot);
                        just_failed = true;
                        next_slot += 1;
                        continue;
                    }
                    // the l2 class also uses file names that are not normalised (the c13 class compares
                    // with the library over normalised names and keeps them)
                    let name = if variant == "l2" && rs.chance(1, 8) { respell(&mut rs, &sc.files[f].path) } else { sc.files[f].path.clone() };
                    ops.push(Op::Initiate { slot: next_slot, file: name, src: fv.text.clone(), imports: fv.imports.clone() });
                    live.push(next_slot);
                    next_slot += 1;
                }
                1 => ops.push(Op::Required { t: pick_ref(&mut rs, &live, &freed, jf) }),
                2 => {
                    let f = rs.below(sc.files.len());
                    let v = rs.below(sc.files[f].versions.len());
                    let fv = &sc.files[f].versions[v];
                    if adversarial && rs.chance(1, 10) {
                        // a supplied file the parser refuses: load_file takes its error arm
                        let src = *rs.pick(&["fragment Broken on {", "{{", "query Q($v: ) { version }"]);
                        ops.push(Op::Load { t: pick_ref(&mut rs, &live, &freed, jf), file: sc.files[f].path.clone(), src: src.into(), imports: None });
                        continue;
                    }
                    let name = if variant == "l2" && rs.chance(1, 10) { respell(&mut rs, &sc.files[f].path) } else { sc.files[f].path.clone() };
                    ops.push(Op::Load { t: pick_ref(&mut rs, &live, &freed, jf), file: name, src: fv.text.clone(), imports: fv.imports.clone() });
                }
                3 => ops.push(Op::Emit { t: pick_ref(&mut rs, &live, &freed, jf) }),
                4 => {
                    let t = pick_ref(&mut rs, &live, &freed, jf);
                    if let TaskRef::Slot(s) = &t {
                        if let Some(p) = live.iter().position(|x| x == s) {
                            live.remove(p);
                            freed.push(*s);
                            just_freed = Some(*s);
                        }
                    }
                    ops.push(Op::Free { t });
                }
                5 => ops.push(Op::ReadResult),
                _ => ops.push(Op::LoadConfig { text: rs.pick(&sc.configs).clone() }),
            }
        }
        sc.ops = ops;
    }
    sc
}

// ------------------------------------------------------------------ engine

pub fn execute(sc: &E1Scenario) -> RunReport {
    let mut rep = RunReport::default();
    let sc_main = sc.clone();
    abi::init_once();
    abi::set_debug_logging(sc.debug_log);
    if sc.debug_log {
        rep.probe("debug_logging_on");
    }
    // the main history runs on a fresh instance with the scenario's hash seed
    let (calls, mut rep2) = hashseed::on_fresh_instance(sc.hash_seed, move || {
        let mut rep = RunReport::default();
        let mut inst = Instance::new();
        let calls = match &sc_main.l1 {
            Some(plan) => run_l1(&sc_main, plan, &mut inst, &mut rep),
            None => sc_main
                .ops
                .iter()
                .map(|op| {
                    let (id, resp) = inst.exec(op);
                    Call { op: op.clone(), id, resp, fault: None, actor: op_slot(op).unwrap_or(usize::MAX) }
                })
                .collect(),
        };
        (calls, rep)
    });
    rep.faults.append(&mut rep2.faults);
    rep.probes.append(&mut rep2.probes);
    rep.violations.append(&mut rep2.violations);
    rep.events = calls.len() as u64;
    check_history(sc, &calls, &mut rep);
    if sc.variant != "c08" {
        check_projections(sc, &calls, &mut rep);
    }
    if sc.debug_log {
        // the hosts fetch the log after every module; here once, so that it does not pile up
        abi::drain_log();
        abi::set_debug_logging(false);
    }
    // fault accounting for L2 (derived from the executed history)
    let mut sig = rng::fnv("e1");
    let mut last_actor = None;
    let mut interleaved = false;
    let mut seen_actors: Vec<usize> = Vec::new();
    for c in &calls {
        if let Some(f) = &c.fault {
            sig = rng::mix(sig, rng::fnv(f));
        }
        sig = rng::mix(sig, rng::fnv(op_kind(&c.op)));
        sig = rng::mix(sig, c.actor as u64);
        if c.actor != usize::MAX {
            if let Some(l) = last_actor {
                if l != c.actor && seen_actors.contains(&c.actor) {
                    interleaved = true;
                }
            }
            if !seen_actors.contains(&c.actor) {
                seen_actors.push(c.actor);
            }
            last_actor = Some(c.actor);
        }
        match &c.op {
            Op::Required { t } | Op::Load { t, .. } | Op::Emit { t } | Op::Free { t } => match t {
                TaskRef::Raw(0) => rep.fault("zero_id"),
                TaskRef::Raw(_) => rep.fault("huge_id"),
                TaskRef::Unissued(_) => rep.fault("never_issued_id"),
                TaskRef::Slot(_) => {}
            },
            _ => {}
        }
    }
    if interleaved {
        rep.probe("interleaved_tasks");
    }
    rep.signature = sig;
    rep.digest = rng::fnv(&serde_json::to_string(&calls).unwrap());
    rep.nontrivial = interleaved || !rep.faults.is_empty();
    rep.hash_seeds = vec![sc.hash_seed, sc.alt_hash_seed];
    rep.sample = Some(json!({
        "variant": sc.variant,
        "files": sc.files.iter().map(|f| f.path.clone()).collect::<Vec<_>>(),
        "history": calls.iter().map(|c| format!("{}(id={}{}) -> {}{}", op_kind(&c.op), c.id,
            match &c.op { Op::Load{file,..} | Op::Initiate{file,..} => format!(", {file}"), _ => String::new() },
            c.resp.ret, c.fault.as_ref().map(|f| format!(" [{f}]")).unwrap_or_default())).collect::<Vec<_>>(),
    }));
    rep
}

pub struct E1;

impl Engine for E1 {
    fn name(&self) -> &'static str {
        "e1"
    }
    fn generate(&self, run_seed: u64, variant: &str, tier: Tier) -> Value {
        serde_json::to_value(gen_scenario(run_seed, variant, tier)).unwrap()
    }
    fn execute(&self, scenario: &Value) -> RunReport {
        let sc: E1Scenario = serde_json::from_value(scenario.clone()).expect("scenario");
        execute(&sc)
    }
    fn shrink(&self, scenario: &Value) -> Vec<Value> {
        let sc: E1Scenario = serde_json::from_value(scenario.clone()).expect("scenario");
        let mut out: Vec<E1Scenario> = Vec::new();
        if let Some(plan) = &sc.l1 {
            // drop a module, a fault, an env event
            for i in (0..plan.modules.len()).rev() {
                if plan.modules.len() > 1 {
                    let mut s = sc.clone();
                    let p = s.l1.as_mut().unwrap();
                    p.modules.remove(i);
                    p.env.retain(|(_, e)| !matches!(e, EnvEvent::Unrequested { module, .. } if *module >= p.modules.len()));
                    out.push(s);
                }
            }
            for i in 0..plan.read_faults.len() {
                let mut s = sc.clone();
                s.l1.as_mut().unwrap().read_faults.remove(i);
                out.push(s);
            }
            for i in 0..plan.env.len() {
                let mut s = sc.clone();
                s.l1.as_mut().unwrap().env.remove(i);
                out.push(s);
            }
            if plan.config.is_some() {
                let mut s = sc.clone();
                s.l1.as_mut().unwrap().config = None;
                out.push(s);
            }
            if plan.pct {
                let mut s = sc.clone();
                s.l1.as_mut().unwrap().pct = false;
                out.push(s);
            }
            // convert to the flat history it produced (then L2 shrinking applies)
        } else {
            // drop chunks of ops, then single ops
            let n = sc.ops.len();
            let mut chunk = n / 2;
            while chunk >= 1 {
                let mut i = 0;
                while i + chunk <= n {
                    let mut s = sc.clone();
                    s.ops.drain(i..i + chunk);
                    out.push(s);
                    i += chunk;
                }
                chunk /= 2;
            }
        }
        // simplify file contents: drop later versions
        for (i, f) in sc.files.iter().enumerate() {
            if f.versions.len() > 1 {
                let mut s = sc.clone();
                s.files[i].versions.truncate(1);
                if let Some(p) = s.l1.as_mut() {
                    p.env.retain(|(_, e)| !matches!(e, EnvEvent::Edit { file, .. } if *file == i));
                }
                out.push(s);
            }
        }
        out.into_iter().map(|s| serde_json::to_value(s).unwrap()).collect()
    }
}

// ------------------------------------------------------------------ Miri entry

/// Small adversarial histories over three tiny documents, executed directly (no JSON, no
/// projections): the memory-model check of C19.6 under Miri, where pest is ~10^4 x slower.
pub fn miri_smoke(from: u64, to: u64) -> usize {
    let docs = [
        ("/p/a.graphql", "#import F from \"./b.graphql\"\nquery Q { a ...F }\n"),
        ("/p/b.graphql", "#import * from \"./c.graphql\"\nfragment F on T { b ...G }\n"),
        ("/p/c.graphql", "\u{feff}fragment G on T { c }\n"),
    ];
    let mut bad = 0;
    for seed in from..to {
        let mut r = Rng::new(rng::mix(seed, 0x4d495249));
        let n = r.range(6, 12);
        let history = std::thread::spawn(move || {
            let mut inst = Instance::new();
            let mut out = Vec::new();
            let mut next_slot = 0usize;
            for _ in 0..n {
                let t = match r.below(6) {
                    0 => TaskRef::Raw(0),
                    1 => TaskRef::Unissued(0),
                    _ => TaskRef::Slot(r.below(next_slot.max(1))),
                };
                let d = r.below(3);
                let op = match if next_slot == 0 { 0 } else { r.weighted(&[2, 3, 5, 3, 2, 1, 1]) } {
                    0 => {
                        next_slot += 1;
                        Op::Initiate { slot: next_slot - 1, file: docs[d].0.into(), src: docs[d].1.into(), imports: None }
                    }
                    1 => Op::Required { t },
                    2 => Op::Load { t, file: docs[d].0.into(), src: docs[d].1.into(), imports: None },
                    3 => Op::Emit { t },
                    4 => Op::Free { t },
                    5 => Op::ReadResult,
                    _ => Op::LoadConfig { text: "schema: s.graphql\n".into() },
                };
                let (id, resp) = inst.exec(&op);
                out.push(format!("{}({id}) -> {}", op_kind(&op), resp.ret));
            }
            out
        })
        .join();
        match history {
            Ok(h) => println!("miri seed {seed}: {}", h.join(", ")),
            Err(_) => {
                println!("miri seed {seed}: PANIC");
                bad += 1;
            }
        }
    }
    bad
}
