//! `nvsim check <ID>`: the per-property drivers.

use crate::sim::{self, BatchStats, Engine, Finding, Tier, WorkerCfg};
use serde_json::{Value, json};
use std::collections::BTreeMap;
use std::time::{Duration, Instant};

pub struct Plan {
    pub engine: &'static str,
    pub variant: &'static str,
    pub quick: u64,
    pub thorough: u64,
    /// use the ASan build of the worker
    pub asan: bool,
}

pub struct PropertySpec {
    pub id: &'static str,
    pub level: &'static str,
    pub plans: Vec<Plan>,
    pub rule: &'static str,
    pub assumptions: Vec<&'static str>,
    pub real_components: Vec<&'static str>,
    pub stubbed_components: Vec<&'static str>,
}

pub fn specs() -> Vec<PropertySpec> {
    vec![
        PropertySpec {
            id: "C18",
            level: "fault_enumeration",
            plans: vec![
                Plan { engine: "e2", variant: "c18", quick: 1_500, thorough: 30_000, asan: false },
                Plan { engine: "e2", variant: "c18f", quick: 1_200, thorough: 20_000, asan: false },
            ],
            rule: "seeded projects (schema split over 1-3 files, 1-5 operation files with imports, random layout/config/options) that are valid or carry 1-3 labelled rule violations; each is run as check / generate / check+generate in the three output formats on a fresh tree (c18), and as check+generate under one injected I/O fault or crash at a sampled (quick) or every (thorough sweeps) intercepted system call of the fault-free trace (c18f). distinct = behaviour class of a run: hash of the project / layout shape (numbers of files and import lines, schema format, mode, config format and discovery, cwd, flag overrides, outputs configured), the kinds of injected violations, the fault kinds that fired and the probes reached - not names, texts or seeds; non-trivial = a violation was injected or a fault fired",
            assumptions: vec![
                "the CLI runs natively under an LD_PRELOAD shim instead of wasm32-wasi",
                "diagnostic positions are judged by an independent GraphQL lexer",
                "the verdict clause uses only the plainest constructs and violations (checker exactness itself is C03-C05, not claimed)",
            ],
            real_components: vec!["nitrogql-cli binary and every crate it links (clap, globmatch, serde_yaml, std::fs)", "kernel (tmpfs) for every call without an injected fault"],
            stubbed_components: vec!["kernel answers where a fault is injected (shim)", "getrandom (hash seed) and readdir order (shim)"],
        },
        PropertySpec {
            id: "C17",
            level: "exploration",
            plans: vec![
                Plan { engine: "e2", variant: "c17", quick: 800, thorough: 20_000, asan: false },
                // a run that met an I/O fault and reports success must have produced the same bytes
                Plan { engine: "e2", variant: "c18f", quick: 300, thorough: 5_000, asan: false },
            ],
            rule: "seeded rich projects (>=6 types, >=3 directives and scalar mappings, >=2 implementers per interface); check+generate under 4 hash seeds x 2 directory-enumeration orders on fresh trees, a re-run on the generated tree, and a crash (or torn write + crash) at sampled system calls followed by a clean run; everything compared byte for byte",
            assumptions: vec!["std's SipHash keys come from one getrandom call per process (verified by the self-test)", "directory order is permuted inside readdir64"],
            real_components: vec!["nitrogql-cli binary"],
            stubbed_components: vec!["getrandom, readdir order, crash points (shim)"],
        },
        PropertySpec {
            id: "C08",
            level: "fault_enumeration",
            plans: vec![
                Plan { engine: "e2", variant: "c08", quick: 700, thorough: 15_000, asan: false },
                Plan { engine: "e1", variant: "c08", quick: 15_000, thorough: 800_000, asan: false },
                Plan { engine: "e1", variant: "c08", quick: 3_000, thorough: 100_000, asan: true },
                // "in every other simulated run no trap": the fault-free generate class on rich projects
                Plan { engine: "e2", variant: "arte", quick: 1_200, thorough: 30_000, asan: false },
                // ... and the class with injected rule violations (check must reject them, generate must not trap)
                Plan { engine: "e2", variant: "c18", quick: 700, thorough: 15_000, asan: false },
            ],
            rule: "at-rest corruption of one input (config, schema or operation file): truncate at a byte offset, flip one bit, splice with another file, empty, invalid UTF-8 tail, indentation replaced by Unicode spaces (IME / copy-paste), file vanished, unreadable; then check / generate / check+generate; plus the fault-free generate class (no trap in any simulated run)",
            assumptions: vec!["storage-fault slice only: grammar-directed fuzzing of the parser is a different technique"],
            real_components: vec!["nitrogql-cli binary", "loader ABI"],
            stubbed_components: vec!["storage (corruptions applied to the tree before the run)"],
        },
        PropertySpec {
            id: "C06",
            level: "exploration",
            plans: vec![
                Plan { engine: "e2", variant: "arte", quick: 3_000, thorough: 80_000, asan: false },
                Plan { engine: "e2", variant: "c17", quick: 300, thorough: 5_000, asan: false },
                // maps announced by a run that met an I/O fault and still reported success
                Plan { engine: "e2", variant: "c18f", quick: 300, thorough: 5_000, asan: false },
            ],
            rule: "every .map listed by a successful simulated generate (all three modes, randomised layouts and options, rich schemas split over 1-3 files with extensions, 1-6 operation files with imports; also after re-runs and crash-re-runs in the c17 class) is decoded with an independent VLQ reader and judged segment by segment against the generated text and the GraphQL inputs on the simulated file system",
            assumptions: vec!["independent VLQ decoder, lexer and header scanner (indep.rs)", "columns are UTF-16 units; the workload keeps non-ASCII to the BMP"],
            real_components: vec!["nitrogql-cli binary (printer, sourcemap-writer, generate.rs)"],
            stubbed_components: vec!["none for this check; faults only in the c17 class"],
        },
        PropertySpec {
            id: "C20",
            level: "exploration",
            plans: vec![
                Plan { engine: "e2", variant: "arte", quick: 3_000, thorough: 80_000, asan: false },
                Plan { engine: "e2", variant: "c13", quick: 1_000, thorough: 20_000, asan: false },
                Plan { engine: "e1", variant: "l1", quick: 6_000, thorough: 300_000, asan: false },
                // histories of the c17 class: inputs renamed between two runs
                Plan { engine: "e2", variant: "c17", quick: 300, thorough: 5_000, asan: false },
            ],
            rule: "referential integrity on the simulated file system: schema import specifier of every operation declaration / resolvers file, every sources entry and sourceMappingURL, every #import target (CLI diagnostics and the loader's required-file set) for randomised layouts with outputs above, below and beside inputs and several spellings of each import path",
            assumptions: vec!["independent path normaliser (indep.rs)", "TS->JS extension table inverted by the oracle"],
            real_components: vec!["nitrogql-cli binary", "loader ABI"],
            stubbed_components: vec!["bundler host (e1)"],
        },
        PropertySpec {
            id: "C14",
            level: "exploration",
            plans: vec![Plan { engine: "e2", variant: "c14", quick: 4_000, thorough: 100_000, asan: false }],
            rule: "seeded projects with options drawn from the product of the export/name options and the three generate modes; the CLI writes the declaration files, the loader is given the same config text and all operation files of the project as concurrent module builds under a seeded schedule; for every operation file the value exports and the default export are compared. distinct = behaviour class of a run (project / layout shape, fault kinds fired, probes reached; not names, texts or seeds); non-trivial = a history event happened (config switch on the loader instance, generate over the outputs of an earlier project version)",
            assumptions: vec!["tolerant scanner for `export const`, `declare const`, `export { X as default }` (e2.rs scan_exports)", "one nitrogql config per loader instance (documented deployment)"],
            real_components: vec!["nitrogql-cli binary", "loader ABI"],
            stubbed_components: vec!["bundler host"],
        },
        PropertySpec {
            id: "C13",
            level: "exploration",
            plans: vec![
                Plan { engine: "e3", variant: "", quick: 150_000, thorough: 4_000_000, asan: false },
                Plan { engine: "e1", variant: "c13", quick: 25_000, thorough: 600_000, asan: false },
                Plan { engine: "e2", variant: "c13", quick: 1_500, thorough: 40_000, asan: false },
            ],
            rule: "seeded import graphs (<=7 files, cycles, diamonds, self imports, several spellings of one path, wildcard/specific/repeated names, dangling files, missing names, resolver misses); a case is distinct by the hash of its resolved edge list + presence flags + root, non-trivial when it has >= 2 import lines",
            assumptions: vec![
                "reference closure and path normaliser are independent re-implementations (sim/nvsim/src/e3.rs, indep.rs)",
                "definition identity is (position.file, name) with files parsed after set_current_file_of_pos(i), as the CLI does",
            ],
            real_components: vec!["nitrogql-parser", "resolve_operation_extensions", "resolve_operation_imports", "loader ABI (e1)", "nitrogql-cli binary (e2)"],
            stubbed_components: vec!["OperationResolver implementation (a map over the scenario's files)", "bundler host (e1)", "kernel answers where a fault is injected (e2)"],
        },
        PropertySpec {
            id: "C19",
            level: "exploration",
            plans: vec![
                Plan { engine: "e1", variant: "l2", quick: 20_000, thorough: 1_500_000, asan: false },
                Plan { engine: "e1", variant: "l1", quick: 12_000, thorough: 800_000, asan: false },
                Plan { engine: "e1", variant: "l2", quick: 4_000, thorough: 200_000, asan: true },
                Plan { engine: "e1", variant: "l1", quick: 2_000, thorough: 100_000, asan: true },
            ],
            rule: "seeded call histories over the loader ABI: L2 = adversarial sequences over {initiate, required, load, emit, free, read_result, load_config} with live/freed/never-issued/0/MAX ids; L1 = <=4 concurrent modules running the ported bundler transform() loop under a seeded scheduler with read failures, re-supplies, duplicate and unrequested supplies, watch-mode edits, config reloads. distinct = hash of the (slot, call kind, fault kind) sequence; non-trivial = at least one fault fired or at least two tasks' calls interleave",
            assumptions: vec![
                "native 64-bit build of the loader instead of wasm32 (same Rust, stricter memory checking)",
                "one loader instance = one fresh OS thread (all loader state is thread_local)",
                "init() is called once per worker process, logging stays off",
            ],
            real_components: vec!["graphql-loader C ABI and everything below it (parser, extension/import resolver, JS printer, task table)"],
            stubbed_components: vec!["bundler host (Rust port of the transform() loop of rollup/webpack/jest hosts)", "host file system (map with versions)"],
        },
    ]
}

pub struct Ctx {
    pub verif_seed: u64,
    pub tier: Tier,
    pub out_dir: String,
    pub exe: String,
    pub asan_exe: String,
    pub workers: usize,
    pub env: Vec<(String, String)>,
    pub wrap: Vec<String>,
    pub known_path: String,
}

impl Ctx {
    pub fn worker_cfg(&self, asan: bool) -> WorkerCfg {
        let mut env = self.env.clone();
        if asan {
            env.push(("ASAN_OPTIONS".into(), "detect_leaks=0:abort_on_error=1:allocator_may_return_null=1".into()));
        }
        WorkerCfg { exe: if asan { self.asan_exe.clone() } else { self.exe.clone() }, env, out_dir: self.out_dir.clone(), wrap: self.wrap.clone() }
    }
}

#[derive(Clone, Debug)]
pub struct Known {
    pub property: String,
    pub class: String,
    pub text: String,
}

pub fn load_known(path: &str) -> Vec<Known> {
    let mut v = Vec::new();
    let Ok(s) = std::fs::read_to_string(path) else { return v };
    for l in s.lines() {
        let l = l.trim();
        let Some(rest) = l.strip_prefix("known:") else { continue };
        let mut property = String::new();
        let mut class = String::new();
        let (head, text) = rest.split_once("::").unwrap_or((rest, ""));
        for w in head.split_whitespace() {
            if let Some(p) = w.strip_prefix("property=") {
                property = p.into();
            }
            if let Some(c) = w.strip_prefix("class=") {
                class = c.into();
            }
        }
        if !property.is_empty() && !class.is_empty() {
            v.push(Known { property, class, text: text.trim().into() });
        }
    }
    v
}

pub fn engine_by_name<'a>(engines: &'a [Box<dyn Engine>], name: &str) -> &'a dyn Engine {
    engines.iter().find(|e| e.name() == name).map(|b| b.as_ref()).expect("engine")
}

/// Runs the check for one property.  Returns the process exit code.
pub fn run_check(ctx: &Ctx, engines: &[Box<dyn Engine>], id: &str) -> i32 {
    let start = Instant::now();
    let specs = specs();
    let Some(spec) = specs.iter().find(|s| s.id == id) else {
        eprintln!("HARNESS-ERROR: no check for property {id}");
        return 2;
    };
    println!("nvsim: property={id} tier={:?} VERIF_SEED={} workers={}", ctx.tier, ctx.verif_seed, ctx.workers);
    let known = load_known(&ctx.known_path);
    let mut total = BatchStats::default();
    let mut per_plan = Vec::new();
    let scale: f64 = std::env::var("NVSIM_SCALE").ok().and_then(|s| s.parse().ok()).unwrap_or(1.0);
    for plan in &spec.plans {
        let n = ((if ctx.tier == Tier::Thorough { plan.thorough } else { plan.quick }) as f64 * scale).ceil() as u64;
        if n == 0 {
            continue;
        }
        if plan.asan && !std::path::Path::new(&ctx.asan_exe).exists() {
            eprintln!("HARNESS-ERROR: ASan worker binary missing ({})", ctx.asan_exe);
            return 2;
        }
        let t0 = Instant::now();
        let cfg = ctx.worker_cfg(plan.asan);
        let st = sim::run_batch(&cfg, plan.engine, plan.variant, ctx.verif_seed, ctx.tier, 0, n, ctx.workers, None, Duration::from_secs(60));
        let dt = t0.elapsed().as_secs_f64();
        println!(
            "  plan engine={} variant={} asan={} runs={} events={} findings={} wall={:.1}s",
            plan.engine,
            plan.variant,
            plan.asan,
            st.runs,
            st.events,
            st.findings.len(),
            dt
        );
        per_plan.push(json!({"engine": plan.engine, "variant": plan.variant, "asan": plan.asan, "runs": st.runs, "wall_s": dt,
            "runs_per_hour": if dt > 0.0 { (st.runs as f64 / dt * 3600.0) as u64 } else { 0 }}));
        // tag findings with plan (asan flag needed for minimisation)
        let asan = plan.asan;
        let mut st = st;
        for f in st.findings.iter_mut() {
            if asan {
                f.variant = format!("{}#asan", f.variant);
            }
        }
        total.merge(st);
    }
    // ---- triage
    let mine: Vec<&Finding> = total.findings.iter().filter(|f| f.violation.properties.iter().any(|p| p == id)).collect();
    // findings that count against other properties only are shown, never judged here
    let mut foreign: BTreeMap<String, (u64, u64)> = BTreeMap::new();
    for f in total.findings.iter().filter(|f| !f.violation.properties.iter().any(|p| p == id)) {
        let e = foreign.entry(format!("{:?} {}", f.violation.properties, f.violation.class)).or_insert((0, f.run_seed));
        e.0 += 1;
    }
    for (k, (n, seed)) in &foreign {
        println!("  note: {n} finding(s) for other properties, not judged by this check: {k} (e.g. run_seed {seed} engine/variant {})",
            total.findings.iter().find(|f| f.run_seed == *seed).map(|f| format!("{}/{}", f.engine, f.variant)).unwrap_or_default());
    }
    let mut by_class: BTreeMap<String, Vec<&Finding>> = BTreeMap::new();
    for f in &mine {
        by_class.entry(f.violation.class.clone()).or_default().push(f);
    }
    let mut exit = 0;
    let mut unstable = 0;
    let mut n_viol = 0;
    let mut known_hit: BTreeMap<String, u64> = BTreeMap::new();
    let mut reported = Vec::new();
    for (class, fs) in &by_class {
        if let Some(k) = known.iter().find(|k| k.property == id && k.class == *class) {
            *known_hit.entry(format!("KNOWN-FINDING: property={id} class={} {}", k.class, k.text)).or_insert(0) += fs.len() as u64;
            continue;
        }
        n_viol += fs.len();
        // minimise + replay the first finding of the class
        let f = fs[0];
        let (variant, asan) = match f.variant.strip_suffix("#asan") {
            Some(v) => (v.to_string(), true),
            None => (f.variant.clone(), false),
        };
        let engine = engine_by_name(engines, &f.engine);
        let cfg = ctx.worker_cfg(asan);
        let scenario = engine.generate(f.run_seed, &variant, ctx.tier);
        let budget = Duration::from_secs(if ctx.tier == Tier::Thorough { 120 } else { 40 });
        // confirm reproduction from the regenerated scenario first
        let first = sim::exec_once(&cfg, engine.name(), &variant, &scenario, Duration::from_secs(60));
        if !first.iter().any(|v| v.class == *class) {
            // (memory-unsafe code behaves differently in a worker with another heap history)
            eprintln!(
                "UNSTABLE: finding class={class} seed={} did not reproduce in a fresh worker (got {:?})",
                f.run_seed,
                first.iter().map(|v| &v.class).collect::<Vec<_>>()
            );
            unstable += 1;
            continue;
        }
        let (min, steps) = sim::minimise(&cfg, engine, &variant, scenario.clone(), class, budget, Duration::from_secs(60));
        let detail = sim::exec_once(&cfg, engine.name(), &variant, &min, Duration::from_secs(60))
            .into_iter()
            .find(|v| v.class == *class)
            .map(|v| v.detail)
            .unwrap_or_default();
        let dir = format!("{}/replays/{id}", ctx.out_dir);
        let _ = std::fs::create_dir_all(&dir);
        let safe: String = class.chars().map(|c| if c.is_ascii_alphanumeric() || c == '.' || c == '-' { c } else { '_' }).collect();
        let path = format!("{dir}/{}-{safe}.json", f.run_seed);
        let replay = json!({
            "property": id, "engine": f.engine, "variant": variant, "asan": asan, "class": class,
            "verif_seed": ctx.verif_seed, "run_seed": f.run_seed, "count_in_batch": fs.len(),
            "minimise_steps": steps, "detail": detail, "scenario": min,
        });
        std::fs::write(&path, serde_json::to_string_pretty(&replay).unwrap()).expect("write replay");
        // replay the written file in a fresh process
        let rc = replay_file(ctx, engines, &path, false);
        if rc != 1 {
            eprintln!("UNSTABLE: replay of {path} did not reproduce (rc={rc})");
            unstable += 1;
            continue;
        }
        println!("VIOLATION property={id} replay={path}");
        println!("  class={class} occurrences={} detail={}", fs.len(), detail.chars().take(400).collect::<String>());
        reported.push(json!({"class": class, "occurrences": fs.len(), "replay": path}));
        exit = exit.max(1);
    }
    for (line, n) in &known_hit {
        println!("{line} (hit {n}x in this run)");
    }
    // findings that exist only in one worker's heap history: a harness error unless some
    // violation of this run did reproduce
    if unstable > 0 && exit == 0 {
        eprintln!("HARNESS-ERROR: {unstable} finding class(es) did not reproduce and nothing else was found");
        exit = 2;
    }
    for e in &total.harness_errors {
        eprintln!("HARNESS-ERROR: {e}");
        if exit == 0 {
            exit = 2;
        }
    }
    // stuck probes are warnings
    let wall = start.elapsed().as_secs_f64();
    // ---- evidence
    let evidence = json!({
        "property_id": id,
        "tier": if ctx.tier == Tier::Thorough { "thorough" } else { "quick" },
        "seed": ctx.verif_seed,
        "level": spec.level,
        "coverage": {
            "evaluations": total.runs,
            "distinct_nontrivial": total.nontrivial_signatures.len(),
            "distinct_signatures": total.signatures.len(),
            "rule": spec.rule,
            "samples": total.samples,
            "logical_events": total.events,
            "simulated_time": "logical time only: nitrogql has no clocks or timers; the unit is the global event sequence number",
            "faults_fired": total.faults,
            "probes": total.probes,
            "hash_seeds_used": total.hash_seeds.len(),
            "plans": per_plan,
            "runs_per_hour": if wall > 0.0 { (total.runs as f64 / wall * 3600.0) as u64 } else { 0 },
            "real_components": spec.real_components,
            "stubbed_components": spec.stubbed_components,
            "violation_classes": reported,
            "miri": std::fs::read_to_string(format!("{}/miri/summary.json", ctx.out_dir)).ok().and_then(|s| serde_json::from_str::<Value>(&s).ok()).filter(|_| id == "C19" && ctx.tier == Tier::Thorough),
            "known_findings_hit": known_hit.keys().collect::<Vec<_>>(),
            "exhaustive": false,
        },
        "assumptions": spec.assumptions,
        "wall_s": wall,
        "violations": n_viol,
    });
    let ev_dir = std::env::var("NVSIM_EVIDENCE_DIR").unwrap_or("/verif/evidence".into());
    let _ = std::fs::create_dir_all(&ev_dir);
    if exit != 2 {
        std::fs::write(format!("{ev_dir}/{id}.json"), serde_json::to_string_pretty(&evidence).unwrap() + "\n").expect("write evidence");
    }
    println!("nvsim: property={id} runs={} violations={} known={} wall={:.1}s exit={exit}", total.runs, n_viol, known_hit.len(), wall);
    exit
}

/// Re-executes a replay file.  Exit 1 iff the recorded class reproduces.
pub fn replay_file(ctx: &Ctx, engines: &[Box<dyn Engine>], path: &str, verbose: bool) -> i32 {
    let Ok(text) = std::fs::read_to_string(path) else {
        eprintln!("HARNESS-ERROR: cannot read {path}");
        return 2;
    };
    let v: Value = serde_json::from_str(&text).expect("replay json");
    let engine = engine_by_name(engines, v["engine"].as_str().unwrap());
    let variant = v["variant"].as_str().unwrap_or("");
    let class = v["class"].as_str().unwrap();
    let cfg = ctx.worker_cfg(v["asan"].as_bool().unwrap_or(false));
    let vs = sim::exec_once(&cfg, engine.name(), variant, &v["scenario"], Duration::from_secs(60));
    if verbose {
        for x in &vs {
            println!("  class={} properties={:?} detail={}", x.class, x.properties, x.detail);
        }
    }
    if vs.iter().any(|x| x.class == class) {
        if verbose {
            println!("VIOLATION property={} replay={path}", v["property"].as_str().unwrap_or("?"));
        }
        1
    } else {
        0
    }
}
