//! E2 cli-sim: the real `nitrogql-cli` binary as a subprocess under the shim, on a
//! project tree in the worker's private tmpfs.

use crate::artifacts;
use crate::indep::{self, TokIndex};
use crate::project::{self, Project, ProjectOpts};
use crate::rng::{self, Rng};
use crate::sandbox::{self, CliResult, Fault, Tree};
use crate::sim::{Engine, RunReport, Tier};
use crate::wgen::SchemaOpts;
use serde::{Deserialize, Serialize};
use serde_json::{Value, json};
use std::collections::{BTreeMap, BTreeSet};

#[derive(Clone, Debug, Serialize, Deserialize)]
pub struct Injected {
    /// absolute path of the offending input
    pub file: String,
    pub kind: String,
    /// 0 schema-parse, 1 op-parse, 2 schema-check, 3 op-resolve, 4 op-check
    pub stage: u8,
}

#[derive(Clone, Debug, Serialize, Deserialize)]
pub struct Corruption {
    pub path: String,
    /// truncate | bitflip | splice | empty | badutf8 | vanish | unreadable
    pub kind: String,
    pub a: usize,
    pub b: usize,
}

#[derive(Clone, Debug, Serialize, Deserialize, Default)]
pub struct FaultSpec {
    /// enumerate every tree call of the golden trace (thorough) instead of sampling
    pub sweep: bool,
    pub sample: usize,
    pub sample_seed: u64,
    /// explicit faults (replay / minimised form); when non-empty nothing else is drawn
    pub pinned: Vec<Fault>,
}

#[derive(Clone, Debug, Serialize, Deserialize)]
pub struct E2Scenario {
    pub variant: String,
    pub project: Project,
    /// initial tree: (absolute path, text) - all generated inputs are UTF-8
    pub tree: Vec<(String, String)>,
    pub injected: Vec<Injected>,
    pub hash_seeds: Vec<u64>,
    pub readdir_seeds: Vec<u64>,
    pub faults: FaultSpec,
    pub corruptions: Vec<Corruption>,
}

impl E2Scenario {
    pub fn tree_bytes(&self) -> Tree {
        self.tree.iter().map(|(p, t)| (p.clone(), t.clone().into_bytes())).collect()
    }
    pub fn schema_inputs(&self) -> Vec<String> {
        (0..self.project.schema_paths.len()).map(|i| self.project.schema_abs(i)).collect()
    }
    pub fn op_inputs(&self) -> Vec<String> {
        (0..self.project.ops.len()).map(|i| self.project.op_abs(i)).collect()
    }
}

// ------------------------------------------------------------------ violation injection

fn insert_after_first(text: &str, pred: impl Fn(&str) -> bool, new_line: &str) -> Option<String> {
    let mut out = Vec::new();
    let mut done = false;
    for l in text.split('\n') {
        out.push(l.to_string());
        if !done && pred(l) {
            out.push(new_line.to_string());
            done = true;
        }
    }
    done.then(|| out.join("\n"))
}

/// Applies one labelled rule violation to the rendered tree.
fn inject(rng: &mut Rng, p: &Project, tree: &mut BTreeMap<String, String>, kind: &str, return_extra: &mut Vec<Injected>) -> Option<Injected> {
    let op_files: Vec<String> = (0..p.ops.len()).map(|i| p.op_abs(i)).collect();
    let schema_files: Vec<String> = (0..p.schema_paths.len()).map(|i| p.schema_abs(i)).collect();
    let is_def_open = |l: &str| {
        let t = l.trim_start();
        // operations only: the pinned checker does not look into fragments that no
        // operation of the file uses (a C03 matter), and a subscription allows one root field
        (t.starts_with("query ") || t.starts_with("mutation ") || t == "query {") && t.ends_with('{')
    };
    match kind {
        // one-line faulty operations: non-ASCII text precedes the offending token on its line
        // (columns in characters != bytes), and the same line can be put at the same position
        // of several files (identical diagnostics in different files must all be reported)
        "unknown_field_oneline" | "unknown_fragment_oneline" => {
            let body = if kind == "unknown_field_oneline" { "zzUnknownField" } else { "...ZzNoSuchFragment" };
            let n = if op_files.len() >= 2 && rng.chance(1, 2) { 2 } else { 1 };
            let mut files = op_files.clone();
            rng.shuffle(&mut files);
            let mut first = None;
            for (k, f) in files.iter().take(n).enumerate() {
                let line = format!("query ZzOp{} ($zz: String = \"名前 – naïve\") {{ {body} }}", (b'A' + k as u8) as char);
                // at the very top: same (line, column) in every chosen file
                let t = format!("{line}\n{}", tree[f]);
                tree.insert(f.clone(), t);
                if first.is_none() {
                    first = Some(Injected { file: f.clone(), kind: kind.into(), stage: 4 });
                } else {
                    return_extra.push(Injected { file: f.clone(), kind: kind.into(), stage: 4 });
                }
            }
            first
        }
        "unknown_field" | "unknown_fragment" => {
            let f = rng.pick(&op_files).clone();
            let line = if kind == "unknown_field" { "  zzUnknownField" } else { "  ...ZzNoSuchFragment" };
            let t = insert_after_first(&tree[&f], is_def_open, line)?;
            tree.insert(f.clone(), t);
            Some(Injected { file: f, kind: kind.into(), stage: 4 })
        }
        "unknown_field_in_imported_fragment" | "unknown_field_in_fragment" => {
            // a fault inside the body of a fragment that another file imports and spreads in one
            // of its operations: the offending file is the fragment's file
            let mut cands: Vec<(usize, String)> = Vec::new();
            for (fi, f) in p.ops.iter().enumerate() {
                for d in &f.defs {
                    if let crate::model::OpDef::Operation { sel, .. } = d {
                        let mut sp = Vec::new();
                        crate::wgen::spreads_of(sel, &mut sp);
                        for imp in &f.imports {
                            let Some(g) = imp.target else { continue };
                            if g == fi {
                                continue;
                            }
                            for d2 in &p.ops[g].defs {
                                if let crate::model::OpDef::Fragment { name, .. } = d2 {
                                    let imported = imp.names.as_ref().is_none_or(|ns| ns.contains(name));
                                    // (a fragment of another file may bear the same name: no document
                                    // contains both, so within this document the name means g's fragment)
                                    if imported && sp.contains(name) {
                                        cands.push((g, name.clone()));
                                    }
                                }
                            }
                        }
                    }
                }
            }
            if kind == "unknown_field_in_fragment" {
                // ... or simply a fragment that an operation of its own file spreads
                cands.clear();
                for (g, f) in p.ops.iter().enumerate() {
                    let mut sp = Vec::new();
                    for d in &f.defs {
                        if let crate::model::OpDef::Operation { sel, .. } = d {
                            crate::wgen::spreads_of(sel, &mut sp);
                        }
                    }
                    for d in &f.defs {
                        if let crate::model::OpDef::Fragment { name, .. } = d {
                            if sp.contains(name) {
                                cands.push((g, name.clone()));
                            }
                        }
                    }
                }
            }
            if cands.is_empty() {
                return None;
            }
            // a name that another file defines as well is the interesting place for such a fault
            // (whatever an earlier document left behind about "the" fragment of that name)
            let preferred: Vec<(usize, String)> = cands.iter().filter(|c| Some(&c.1) == p.collided_fragment.as_ref()).cloned().collect();
            let (g, name) = if !preferred.is_empty() && rng.chance(3, 4) { rng.pick(&preferred).clone() } else { rng.pick(&cands).clone() };
            let f = p.op_abs(g);
            let head = format!("fragment {name} on ");
            let t = insert_after_first(&tree[&f], |l| l.trim_start().starts_with(&head) && l.trim_end().ends_with('{'), "  zzUnknownField")?;
            tree.insert(f.clone(), t);
            Some(Injected { file: f, kind: kind.into(), stage: 4 })
        }
        "unknown_fragment_target" => {
            // a fragment whose type condition names no type; preferably in a file without operations
            let mut cands: Vec<(String, usize)> = Vec::new();
            for f in &op_files {
                let has_op = tree[f].split('\n').any(|l| {
                    let t = l.trim_start();
                    t.starts_with("query ") || t.starts_with("mutation ") || t.starts_with("subscription ") || t == "query {"
                });
                for (li, l) in tree[f].split('\n').enumerate() {
                    let t = l.trim_start();
                    if t.starts_with("fragment ") && t.contains(" on ") && t.trim_end().ends_with('{') {
                        cands.push((f.clone(), li));
                        if !has_op {
                            // fragment-only files three times as likely
                            cands.push((f.clone(), li));
                            cands.push((f.clone(), li));
                        }
                    }
                }
            }
            if cands.is_empty() {
                return None;
            }
            let (f, li) = rng.pick(&cands).clone();
            let mut lines: Vec<String> = tree[&f].split('\n').map(String::from).collect();
            let l = &lines[li];
            let i = l.find(" on ")?;
            let rest = &l[i + 4..];
            let j = rest.find([' ', '{']).unwrap_or(rest.len());
            lines[li] = format!("{} on ZzNoSuchType{}", &l[..i], &rest[j..]);
            tree.insert(f.clone(), lines.join("\n"));
            Some(Injected { file: f, kind: kind.into(), stage: 4 })
        }
        "unknown_field_nested" => {
            // an unknown field deep inside an operation: below a line that opens a nested selection set
            let mut cands: Vec<(String, usize, String)> = Vec::new();
            for f in &op_files {
                let lines: Vec<&str> = tree[f].split('\n').collect();
                let mut in_op = false;
                for (li, l) in lines.iter().enumerate() {
                    if !in_op {
                        in_op = is_def_open(l) && !l.starts_with([' ', '\t']);
                        continue;
                    }
                    if l.starts_with('}') {
                        in_op = false;
                        continue;
                    }
                    if l.starts_with([' ', '\t']) && l.trim_end().ends_with('{') && !l.trim_start().starts_with("...") {
                        let indent: String = l.chars().take_while(|c| *c == ' ' || *c == '\t').collect();
                        cands.push((f.clone(), li, indent));
                    }
                }
            }
            if cands.is_empty() {
                return None;
            }
            let (f, li, indent) = rng.pick(&cands).clone();
            let mut lines: Vec<String> = tree[&f].split('\n').map(String::from).collect();
            lines.insert(li + 1, format!("{indent}{indent}zzUnknownField"));
            tree.insert(f.clone(), lines.join("\n"));
            Some(Injected { file: f, kind: kind.into(), stage: 4 })
        }
        "duplicate_type" => {
            // an object type is declared a second time, in another schema file
            if p.introspection() || schema_files.len() < 2 {
                return None;
            }
            let roots = [Some(p.schema.query.clone()), p.schema.mutation.clone(), p.schema.subscription.clone()];
            let cands: Vec<&crate::model::TypeDef> = p.schema.types.iter().filter(|t| t.kind == crate::model::Kind::Object && !roots.contains(&Some(t.name.clone()))).collect();
            if cands.is_empty() || tree.values().any(|t| t.contains("zzDup")) {
                return None;
            }
            let t = *rng.pick(&cands);
            let def_file = p.schema_abs(t.file);
            let others: Vec<&String> = schema_files.iter().filter(|f| **f != def_file).collect();
            let dup_file = (*rng.pick(&others)).clone();
            let text = format!("{}\n\ntype {} {{\n  zzDup: Int\n}}\n", tree[&dup_file].trim_end(), t.name);
            tree.insert(dup_file.clone(), text);
            // the error is reported at one of the two declarations (the one met first)
            let first = std::cmp::min(def_file, dup_file);
            Some(Injected { file: first, kind: kind.into(), stage: 2 })
        }
        "directive_cycle" => {
            // two directive definitions that use each other on their arguments, and a third one
            // outside the cycle that uses a member of it: rejected by `check` (schema stage)
            if p.introspection() {
                return None;
            }
            let f = rng.pick(&schema_files).clone();
            // (names of their own per injection: a second injection must not redefine them)
            if tree.values().any(|t| t.contains("@zzPing")) {
                return None;
            }
            let t = format!(
                "{}\ndirective @zzPing(a: Int @zzPong) on ARGUMENT_DEFINITION\ndirective @zzPong(b: Int @zzPing) on ARGUMENT_DEFINITION\ndirective @zzUser(c: Int @zzPing) on ARGUMENT_DEFINITION\n",
                tree[&f].trim_end()
            );
            tree.insert(f.clone(), t);
            Some(Injected { file: f, kind: kind.into(), stage: 2 })
        }
        "unknown_type" => {
            let mut cands: Vec<&String> = schema_files.iter().filter(|f| tree[*f].split('\n').any(|l| l.starts_with("type ") && l.ends_with('{'))).collect();
            if cands.is_empty() {
                return None;
            }
            rng.shuffle(&mut cands);
            let f = cands[0].clone();
            // a description on the same line puts non-ASCII text before the offending token
            let line = if rng.chance(1, 2) { "  \"naïve – 日本\" zzBogus: ZzNoSuchType" } else { "  zzBogus: ZzNoSuchType" };
            let t = insert_after_first(&tree[&f], |l| l.starts_with("type ") && l.ends_with('{'), line)?;
            tree.insert(f.clone(), t);
            Some(Injected { file: f, kind: kind.into(), stage: 2 })
        }
        "dup_operation" => {
            // a file with a named query: append another query of the same name
            let mut cands = Vec::new();
            for f in &op_files {
                for l in tree[f].split('\n') {
                    let t = l.trim_start();
                    if let Some(rest) = t.strip_prefix("query ") {
                        let name: String = rest.chars().take_while(|c| c.is_ascii_alphanumeric() || *c == '_').collect();
                        if !name.is_empty() {
                            cands.push((f.clone(), name));
                        }
                    }
                }
            }
            if cands.is_empty() {
                return None;
            }
            let (f, name) = rng.pick(&cands).clone();
            let t = format!("{}\nquery {} {{\n  __typename\n}}\n", tree[&f].trim_end(), name);
            tree.insert(f.clone(), t);
            Some(Injected { file: f, kind: kind.into(), stage: 4 })
        }
        "dangling_import" | "missing_import_name" => {
            // (now and then the same faulty line at the top of a second file: two import errors at
            // the same line and column of different files are two errors)
            if kind == "dangling_import" && op_files.len() >= 2 && rng.chance(1, 2) {
                let mut files = op_files.clone();
                rng.shuffle(&mut files);
                // only files that do not reach each other (an error in an imported file is reported
                // for the importing document as well: the "masked" known finding)
                let model: Vec<(String, Vec<crate::model::ImportLine>, Vec<String>, bool)> = p.ops.iter().enumerate().map(|(k, f)| (p.op_abs(k), f.imports.clone(), vec![], true)).collect();
                let idx = |path: &String| op_files.iter().position(|x| x == path).unwrap();
                let (a, b) = (files[0].clone(), files[1].clone());
                let ra = crate::e3::reference_closure(&model, idx(&a)).reach;
                let rb = crate::e3::reference_closure(&model, idx(&b)).reach;
                if !ra.contains(&idx(&b)) && !rb.contains(&idx(&a)) {
                    for f in [&a, &b] {
                        let t = format!("#import ZzGhost from \"./zz-no-such-file.graphql\"\n{}", tree[f]);
                        tree.insert(f.clone(), t);
                    }
                    return_extra.push(Injected { file: b, kind: kind.into(), stage: 3 });
                    return Some(Injected { file: a, kind: kind.into(), stage: 3 });
                }
            }
            let f = rng.pick(&op_files).clone();
            let line = if kind == "dangling_import" {
                "#import ZzGhost from \"./zz-no-such-file.graphql\"".to_string()
            } else {
                // import a name that does not exist from the file itself (always among the documents)
                // (a path string no other import line of the workload uses: lines with the same path
                // string are merged, and mixing names with a wildcard is a different error)
                format!("#import ZzNoSuchName from \"./zzq/../{}\"", indep::basename(&f))
            };
            let t = format!("{line}\n{}", tree[&f]);
            tree.insert(f.clone(), t);
            Some(Injected { file: f, kind: kind.into(), stage: 3 })
        }
        "schema_json_torn" => {
            // the introspection file of the project cut short (a torn write / interrupted download)
            if !p.introspection() {
                return None;
            }
            let f = schema_files[0].clone();
            let t = &tree[&f];
            let mut k = t.len() / 2 + rng.below(t.len() / 2);
            while !t.is_char_boundary(k) {
                k -= 1;
            }
            let t2 = t[..k].to_string();
            tree.insert(f.clone(), t2);
            Some(Injected { file: f, kind: kind.into(), stage: 0 })
        }
        "op_missing_brace" | "schema_missing_brace" => {
            let files = if kind == "op_missing_brace" { &op_files } else { &schema_files };
            let mut cands: Vec<&String> = files.iter().filter(|f| tree[*f].contains('}')).collect();
            if cands.is_empty() {
                return None;
            }
            rng.shuffle(&mut cands);
            let f = cands[0].clone();
            let t = &tree[&f];
            let i = t.rfind('}')?;
            let t2 = format!("{}{}", &t[..i], &t[i + 1..]);
            tree.insert(f.clone(), t2);
            Some(Injected { file: f, kind: kind.into(), stage: if kind == "op_missing_brace" { 1 } else { 0 } })
        }
        _ => None,
    }
}

const VIOLATION_KINDS: &[&str] = &[
    "unknown_field_oneline",
    "unknown_fragment_oneline",
    "unknown_field",
    "unknown_fragment",
    "unknown_field_in_imported_fragment",
    "unknown_field_in_fragment",
    "unknown_fragment_target",
    "unknown_field_nested",
    "unknown_type",
    "directive_cycle",
    "duplicate_type",
    "dup_operation",
    "dangling_import",
    "missing_import_name",
    "op_missing_brace",
    "schema_missing_brace",
    "schema_json_torn",
];

// ------------------------------------------------------------------ generator

pub fn gen_scenario(run_seed: u64, variant: &str, tier: Tier) -> E2Scenario {
    let base = Rng::new(run_seed);
    let mut rp = base.fork("project");
    let mut rv = base.fork("violations");
    let mut rh = base.fork("hash");
    let mut rf = base.fork("faults");
    let opts = ProjectOpts {
        schema: SchemaOpts { rich: variant == "c17" || variant == "arte", plain: variant == "c18" || variant == "c18f" },
        dangling_pct: 0,
        missing_pct: 0,
        repeats: true,
        cycles: true,
        force_module_specifier: variant == "c17" && base.fork("e4").chance(1, 2),
        outside_docs: variant == "arte" || variant == "c13",
        max_files: if variant == "c17" { 6 } else { 5 },
        closed_imports: true,
        cover_fragments: variant == "c08",
        // a share of the projects describe their schema by an introspection result (.json)
        introspection_pct: match variant {
            "c18" => 12,
            "c18f" => 10,
            "c17" => 15,
            "c08" => 20,
            "arte" => 10,
            "c14" => 8,
            _ => 0,
        },
        // part of the configuration (or all of it) comes from CLI flags
        flag_overrides_pct: match variant {
            "c18" | "c18f" | "arte" | "c17" => 15,
            "c14" => 12,
            _ => 0,
        },
        no_config_ok: variant != "c14",
        // (the c08 classifier reasons with project-unique fragment names)
        fragment_name_collisions: variant != "c08",
        symlinks_pct: match variant {
            "c18" | "c18f" | "arte" | "c13" | "c17" => 10,
            _ => 0,
        },
    };
    let project = project::gen_project(&mut rp, &opts);
    let mut tree: BTreeMap<String, String> = project.files().into_iter().collect();
    let mut injected = Vec::new();
    let with_violations = match variant {
        "c18" => rv.chance(3, 5),
        "c17" => rv.chance(1, 3),
        "c13" => rv.chance(1, 2),
        _ => false,
    };
    if with_violations {
        let n = rv.weighted(&[0, 5, 3, 1]);
        for k in 0..n {
            let kind = if variant == "c13" { *rv.pick(&["dangling_import", "missing_import_name"]) } else { *rv.pick(VIOLATION_KINDS) };
            // projects in which two files define a fragment of the same name: half of the time the
            // first violation goes into a fragment body
            let kind = if k == 0 && variant != "c13" && project.collided_fragment.is_some() && rv.chance(3, 4) {
                if rv.chance(1, 2) { "unknown_field_in_fragment" } else { "unknown_field_in_imported_fragment" }
            } else {
                kind
            };
            // (a type declared twice is refused when the extensions are resolved, before any other
            // schema rule is looked at: it stays the only violation of its project)
            if (kind == "duplicate_type" && !injected.is_empty()) || injected.iter().any(|i: &Injected| i.kind == "duplicate_type") {
                continue;
            }
            let mut extra = Vec::new();
            if let Some(i) = inject(&mut rv, &project, &mut tree, kind, &mut extra) {
                injected.push(i);
                injected.extend(extra);
            }
        }
    }
    let n_hash = if variant == "c17" { 4 } else { 2 };
    let hash_seeds: Vec<u64> = (0..n_hash).map(|_| rh.next_u64()).collect();
    let readdir_seeds: Vec<u64> = (0..2).map(|_| rh.next_u64()).collect();
    let mut corruptions = Vec::new();
    if variant == "c08" {
        let paths: Vec<&String> = tree.keys().collect();
        let n = if tier == Tier::Thorough { 10 } else { 5 };
        for _ in 0..n {
            let p = (*rf.pick(&paths)).clone();
            let len = tree[&p].len().max(1);
            let kind = *rf.pick(&["truncate", "truncate", "truncate", "bitflip", "bitflip", "splice", "empty", "badutf8", "unispace", "unispace", "token_subst", "token_subst", "token_insert", "token_insert", "paste_spread", "vanish", "unreadable"]);
            corruptions.push(Corruption { path: p, kind: kind.into(), a: rf.below(len), b: rf.below(8) });
        }
        if tier == Tier::Thorough && rf.chance(1, 30) {
            // every prefix of one (small) input: a write torn at any byte
            let mut small: Vec<&String> = tree.keys().filter(|p| tree[*p].len() <= 600).collect();
            small.sort();
            if !small.is_empty() {
                let p = (*rf.pick(&small)).clone();
                for k in 0..tree[&p].len() {
                    corruptions.push(Corruption { path: p.clone(), kind: "truncate".into(), a: k, b: 0 });
                }
            }
        }
        // torn config writes that end shortly after a key: the value is a prefix of what it was
        let cfg = project.config_path();
        let text = &tree[&cfg];
        let keys: Vec<usize> = text.match_indices(": ").map(|(i, _)| i).collect();
        if !keys.is_empty() {
            for _ in 0..2 {
                let k = *rf.pick(&keys);
                corruptions.push(Corruption { path: cfg.clone(), kind: "truncate".into(), a: (k + 2 + rf.range(1, 4)).min(text.len()), b: 0 });
            }
        }
    }
    let faults = FaultSpec {
        sweep: tier == Tier::Thorough && rf.chance(1, 8),
        sample: if tier == Tier::Thorough { 10 } else { 5 },
        sample_seed: rf.next_u64(),
        pinned: vec![],
    };
    E2Scenario { variant: variant.to_string(), project, tree: tree.into_iter().collect(), injected, hash_seeds, readdir_seeds, faults, corruptions }
}

// ------------------------------------------------------------------ output parsing

#[derive(Clone, Debug, PartialEq, Eq, PartialOrd, Ord)]
pub struct Diag {
    pub file: Option<String>,
    /// 0-based
    pub line: usize,
    pub col: usize,
    pub file_type: Option<String>,
    pub message: String,
}

pub struct Parsed {
    pub json: Option<Value>,
    pub diags: Vec<Diag>,
    /// error.message of the json format
    pub command_error: Option<String>,
    pub listed: Vec<String>,
}

fn parse_strict_json(stdout: &str) -> Result<Value, String> {
    let Some(body) = stdout.strip_suffix('\n') else { return Err("stdout does not end with a newline".into()) };
    if body.contains('\n') && serde_json::from_str::<Value>(body).is_err() {
        return Err("stdout is more than one line and not one JSON value".into());
    }
    serde_json::from_str::<Value>(body).map_err(|e| format!("stdout is not one JSON value: {e}"))
}

pub fn parse_output(format: &str, r: &CliResult) -> Result<Parsed, String> {
    match format {
        "json" => {
            let v = parse_strict_json(&r.stdout_str())?;
            let mut diags = Vec::new();
            if let Some(errs) = v.pointer("/check/errors").and_then(|e| e.as_array()) {
                for e in errs {
                    let f = e.get("file").filter(|f| !f.is_null());
                    diags.push(Diag {
                        file: f.and_then(|f| f["path"].as_str()).map(String::from),
                        line: f.and_then(|f| f["line"].as_u64()).unwrap_or(0) as usize,
                        col: f.and_then(|f| f["column"].as_u64()).unwrap_or(0) as usize,
                        file_type: e["fileType"].as_str().map(String::from),
                        message: e["message"].as_str().unwrap_or("").into(),
                    });
                }
            }
            let listed = v
                .pointer("/generate/files")
                .and_then(|f| f.as_array())
                .map(|a| a.iter().filter_map(|x| x["path"].as_str().map(indep::norm)).collect())
                .unwrap_or_default();
            let command_error = v.pointer("/error/message").and_then(|m| m.as_str()).map(String::from);
            Ok(Parsed { json: Some(v), diags, command_error, listed })
        }
        "rdjson" => {
            let v = parse_strict_json(&r.stdout_str())?;
            let mut diags = Vec::new();
            let Some(ds) = v.get("diagnostics").and_then(|d| d.as_array()) else { return Err("rdjson without diagnostics array".into()) };
            for d in ds {
                let loc = d.get("location");
                let path = loc.and_then(|l| l["path"].as_str()).map(String::from);
                let line = loc.and_then(|l| l.pointer("/range/start/line")).and_then(|x| x.as_u64());
                let col = loc.and_then(|l| l.pointer("/range/start/column")).and_then(|x| x.as_u64());
                diags.push(Diag {
                    file: path,
                    line: line.unwrap_or(1).saturating_sub(1) as usize,
                    col: col.unwrap_or(1).saturating_sub(1) as usize,
                    file_type: None,
                    message: d["message"].as_str().unwrap_or("").into(),
                });
            }
            Ok(Parsed { json: Some(v), diags, command_error: None, listed: vec![] })
        }
        _ => Ok(Parsed { json: None, diags: vec![], command_error: None, listed: vec![] }),
    }
}

/// `path:line:col` (1-based) occurrences of known input paths in a text -> 0-based
pub fn located_in_text(text: &str, inputs: &[String]) -> Vec<(String, usize, usize)> {
    let mut out = Vec::new();
    // strip ANSI escapes
    let mut clean = String::new();
    let mut it = text.chars().peekable();
    while let Some(c) = it.next() {
        if c == '\u{1b}' {
            for d in it.by_ref() {
                if d.is_ascii_alphabetic() {
                    break;
                }
            }
        } else {
            clean.push(c);
        }
    }
    // every "/abs/path:line:col"; the path is normalised before it is compared (the CLI
    // prints glob-joined paths such as /p/./src/x.graphql)
    let chars: Vec<char> = clean.chars().collect();
    let mut i = 0;
    while i < chars.len() {
        let boundary = i == 0 || chars[i - 1].is_whitespace() || "\"'(`".contains(chars[i - 1]);
        if chars[i] == '/' && boundary {
            let mut j = i;
            while j < chars.len() && !chars[j].is_whitespace() && chars[j] != ':' {
                j += 1;
            }
            let path: String = chars[i..j].iter().collect();
            let mut k = j;
            let mut nums = Vec::new();
            for _ in 0..2 {
                if k < chars.len() && chars[k] == ':' {
                    let mut e = k + 1;
                    while e < chars.len() && chars[e].is_ascii_digit() {
                        e += 1;
                    }
                    if e > k + 1 {
                        nums.push(chars[k + 1..e].iter().collect::<String>().parse::<usize>().unwrap_or(0));
                        k = e;
                        continue;
                    }
                }
                break;
            }
            if nums.len() == 2 && nums[0] >= 1 && nums[1] >= 1 {
                let np = indep::norm(&path);
                if inputs.contains(&np) {
                    out.push((np, nums[0] - 1, nums[1] - 1));
                }
            }
            i = j.max(i + 1);
        } else {
            i += 1;
        }
    }
    out
}

// ------------------------------------------------------------------ per-invocation oracles (C18 1-3, 5, 7)

pub struct Invocation<'a> {
    pub commands: &'a [&'a str],
    pub format: &'a str,
    pub result: &'a CliResult,
    pub before: &'a Tree,
    pub after: &'a Tree,
}

pub fn changed_paths(before: &Tree, after: &Tree) -> BTreeSet<String> {
    let mut s = BTreeSet::new();
    for (p, b) in after {
        if before.get(p) != Some(b) {
            s.insert(p.clone());
        }
    }
    for p in before.keys() {
        if !after.contains_key(p) {
            s.insert(p.clone());
        }
    }
    s
}

/// Checks one fault-free invocation.  Returns the parsed output when well-formed.
pub fn check_invocation(sc: &E2Scenario, inv: &Invocation, rep: &mut RunReport, tag: &str) -> Option<Parsed> {
    let r = inv.result;
    let what = format!("{tag}`{} --output-format {}`", inv.commands.join(" "), inv.format);
    // 1. exit status
    if r.trapped() {
        rep.violate(&["C18", "C08"], &format!("trap@{}", r.panic_site()), format!("{what}: exit {} stderr: {}", r.exit, tail(&r.stderr_str())));
        return None;
    }
    if r.exit != 0 && r.exit != 1 {
        rep.violate(&["C18"], "C18.1-exit-status", format!("{what}: exit status {}", r.exit));
        return None;
    }
    // 2. one JSON value
    let parsed = match parse_output(inv.format, r) {
        Ok(p) => p,
        Err(e) => {
            rep.violate(&["C18"], "C18.2-json-malformed", format!("{what}: {e}; stdout={:?}", tail(&r.stdout_str())));
            return None;
        }
    };
    let inputs: Vec<String> = sc.schema_inputs().into_iter().chain(sc.op_inputs()).collect();
    // 3. exit 0 <=> no diagnostic, and exit 1 locates a fault
    match inv.format {
        "json" => {
            let has_diag = parsed.command_error.is_some() || !parsed.diags.is_empty();
            if (r.exit == 0) == has_diag {
                rep.violate(&["C18"], "C18.3-exit-vs-diagnostics", format!("{what}: exit {} but diagnostics present = {has_diag}", r.exit));
            }
            if r.exit == 1 {
                let located = parsed.diags.iter().any(|d| d.file.is_some())
                    || parsed.command_error.as_ref().is_some_and(|m| !located_in_text(m, &inputs).is_empty());
                if !located {
                    rep.violate(
                        &["C18"],
                        &format!("C18.3-unlocated:{}", unlocated_class(sc)),
                        format!("{what}: exit 1 but no diagnostic carries file, line and column: {}", tail(&r.stdout_str())),
                    );
                }
            }
        }
        "rdjson" => {
            if r.exit == 0 && !parsed.diags.is_empty() {
                rep.violate(&["C18"], "C18.3-exit-vs-diagnostics", format!("{what}: exit 0 with {} rdjson diagnostics", parsed.diags.len()));
            }
            if r.exit == 1 {
                if parsed.diags.is_empty() {
                    rep.violate(
                        &["C18"],
                        &format!("C18.3-rdjson-empty:{}", unlocated_class(sc)),
                        format!("{what}: exit 1 but rdjson lists no diagnostic: {}", tail(&r.stdout_str())),
                    );
                } else if !parsed.diags.iter().any(|d| d.file.is_some()) {
                    rep.violate(&["C18"], &format!("C18.3-unlocated:{}", unlocated_class(sc)), format!("{what}: exit 1, no located rdjson diagnostic"));
                }
            }
        }
        _ => {
            if r.exit == 1 && located_in_text(&r.stderr_str(), &inputs).is_empty() {
                rep.violate(
                    &["C18"],
                    &format!("C18.3-unlocated:{}", unlocated_class(sc)),
                    format!("{what}: exit 1 but stderr names no input as path:line:col: {}", tail(&r.stderr_str())),
                );
            }
        }
    }
    // 5. every located diagnostic names an input of the right kind at a token start
    let schema_inputs = sc.schema_inputs();
    let op_inputs = sc.op_inputs();
    for d in &parsed.diags {
        let Some(f) = &d.file else { continue };
        let nf = indep::norm(f);
        let is_schema = schema_inputs.contains(&nf);
        let is_op = op_inputs.contains(&nf);
        if !is_schema && !is_op {
            rep.violate(&["C18"], "C18.5-diagnostic-foreign-file", format!("{what}: diagnostic names {f}, which is not an input of the project"));
            continue;
        }
        if let Some(ft) = &d.file_type {
            if (ft == "schema") != is_schema {
                rep.violate(&["C18"], "C18.5-diagnostic-file-kind", format!("{what}: diagnostic fileType={ft} for {f}"));
            }
        }
        let Some(text) = inv.before.get(&nf) else { continue };
        let text = String::from_utf8_lossy(text).into_owned();
        let idx = TokIndex::new(&text);
        if inv.format == "rdjson" {
            // rdjson also carries parse-stage errors (pest reports the furthest position reached,
            // serde_json a byte column): inside the file or at its end.  Check-stage positions
            // are judged in the json format, and item 6 demands the same positions in both.
            if !(idx.inside(d.line, d.col) || d.line <= text.split('\n').count()) {
                rep.violate(&["C18"], "C18.5-diagnostic-outside-file", format!("{what}: {f}:{}:{} lies outside the file", d.line, d.col));
            }
            continue;
        }
        if !idx.inside(d.line, d.col) {
            rep.violate(&["C18"], "C18.5-diagnostic-outside-file", format!("{what}: {f}:{}:{} lies outside the file", d.line, d.col));
        } else if idx.at(d.line, d.col).is_none() && !on_import_line(&text, d.line, d.col) {
            rep.violate(
                &["C18"],
                "C18.5-diagnostic-not-token-start",
                format!("{what}: {f}:{}:{} ({}) is not the start of a token", d.line, d.col, d.message),
            );
        }
    }
    // parse-stage / command-level located messages: inside the file or at its end
    if let Some(m) = &parsed.command_error {
        for (f, l, c) in located_in_text(m, &inputs) {
            if let Some(text) = inv.before.get(&f) {
                let text = String::from_utf8_lossy(text).into_owned();
                let n_lines = text.split('\n').count();
                let idx = TokIndex::new(&text);
                if !(idx.inside(l, c) || l <= n_lines) {
                    rep.violate(&["C18"], "C18.5-diagnostic-outside-file", format!("{what}: {f}:{l}:{c} in the error message lies outside the file"));
                }
            }
        }
    }
    // 7. file system
    let changed = changed_paths(inv.before, inv.after);
    let input_paths: BTreeSet<String> = sc.tree.iter().map(|(p, _)| p.clone()).collect();
    for p in &changed {
        if input_paths.contains(p) {
            rep.violate(&["C18"], "C18.7-input-modified", format!("{what}: input file {p} was modified or removed"));
        }
    }
    let generates = inv.commands.contains(&"generate");
    if !generates && !changed.is_empty() {
        rep.violate(&["C18"], "C18.7-check-writes", format!("{what}: `check` changed {changed:?}"));
    }
    if generates && inv.format == "json" {
        let listed: BTreeSet<String> = parsed.listed.iter().cloned().collect();
        if r.exit == 0 {
            for p in &listed {
                if !inv.after.contains_key(p) {
                    rep.violate(&["C18"], "C18.7-listed-missing", format!("{what}: listed file {p} does not exist"));
                }
            }
            let unlisted: Vec<&String> = changed.iter().filter(|p| !listed.contains(*p)).collect();
            if !unlisted.is_empty() {
                rep.violate(&["C18"], "C18.7-written-not-listed", format!("{what}: wrote {unlisted:?} without listing them"));
            }
            // on a tree without earlier outputs every listed file must have been created
            let not_written: Vec<&String> = listed.iter().filter(|p| !changed.contains(*p) && !inv.before.contains_key(*p)).collect();
            if !not_written.is_empty() {
                rep.violate(&["C18"], "C18.7-listed-missing", format!("{what}: listed but not written: {not_written:?}"));
            }
        } else if !changed.is_empty() && parsed.diags.iter().any(|_| true) {
            // check failed (check-stage diagnostics present): nothing may be written
            rep.violate(&["C18"], "C18.7-writes-after-failed-check", format!("{what}: check failed but {changed:?} changed"));
        }
    }
    if generates && r.exit == 1 && !changed.is_empty() && inv.format == "rdjson" && !parsed.diags.is_empty() {
        rep.violate(&["C18"], "C18.7-writes-after-failed-check", format!("{what}: check failed but {changed:?} changed"));
    }
    Some(parsed)
}

fn unlocated_class(sc: &E2Scenario) -> String {
    // the structural shape that makes the class specific: the earliest stage at which the
    // project is faulty (that is the stage whose errors the CLI reports)
    if !sc.corruptions.is_empty() {
        return "corrupted-input".into();
    }
    match sc.injected.iter().map(|i| i.stage).min() {
        None => "no-injected-fault".into(),
        Some(0) => "schema-parse-error".into(),
        Some(1) => "operation-parse-error".into(),
        Some(2) => "schema-check-error".into(),
        Some(3) => "import-error".into(),
        Some(_) => "operation-check-error".into(),
    }
}

fn on_import_line(text: &str, line: usize, col: usize) -> bool {
    // positions on `#import` lines: token starts of the import statement
    let Some(l) = text.split('\n').nth(line) else { return false };
    let t = l.trim_start();
    if !t.starts_with('#') {
        return false;
    }
    let hash_col = l.chars().take_while(|c| *c != '#').count();
    if col == hash_col {
        return true;
    }
    let blanked: String = l.chars().enumerate().map(|(i, c)| if i == hash_col { ' ' } else { c }).collect();
    indep::lex(&blanked).iter().any(|t| t.col == col)
}

pub fn tail(s: &str) -> String {
    let s = &scrub(s.as_bytes());
    let t: String = s.chars().rev().take(500).collect::<String>().chars().rev().collect();
    t.replace('\n', " | ")
}

// ------------------------------------------------------------------ drivers

struct Runner<'a> {
    sc: &'a E2Scenario,
    tree0: Tree,
    runs: u64,
    digest: u64,
}

thread_local! {
    static RUN_DIGEST: std::cell::Cell<u64> = const { std::cell::Cell::new(0) };
}

/// thread ids in panic messages are the one thing that legitimately differs between runs
fn scrub(s: &[u8]) -> String {
    let t = String::from_utf8_lossy(s);
    let mut out = String::new();
    let mut rest: &str = &t;
    while let Some(i) = rest.find("thread 'main' (") {
        out.push_str(&rest[..i + 15]);
        rest = &rest[i + 15..];
        let n = rest.chars().take_while(|c| c.is_ascii_digit()).count();
        rest = &rest[n..];
    }
    out.push_str(rest);
    out
}

impl<'a> Runner<'a> {
    fn new(sc: &'a E2Scenario) -> Self {
        RUN_DIGEST.with(|d| d.set(0));
        Runner { sc, tree0: sc.tree_bytes(), runs: 0, digest: 0 }
    }
    fn args(&self, commands: &[&str], format: &str) -> Vec<String> {
        let mut a = self.sc.project.config_args();
        for c in commands {
            a.push(c.to_string());
        }
        a.push("--output-format".into());
        a.push(format.into());
        a.extend(self.sc.project.flag_args());
        a
    }
    /// fresh tree, one invocation
    fn fresh(&mut self, commands: &[&str], format: &str, hash: u64, rd: Option<u64>, faults: &[Fault]) -> (CliResult, Tree) {
        sandbox::reset_tree(&self.tree0);
        self.on_tree(commands, format, hash, rd, faults)
    }
    /// invocation on the tree as it is
    fn on_tree(&mut self, commands: &[&str], format: &str, hash: u64, rd: Option<u64>, faults: &[Fault]) -> (CliResult, Tree) {
        self.runs += 1;
        let r = sandbox::run_cli(&self.sc.project.cwd, &self.args(commands, format), hash, rd, faults);
        let after = sandbox::snapshot();
        let mut d = rng::mix(self.digest, r.exit as u64);
        d = rng::mix(d, rng::fnv(&scrub(&r.stdout)));
        d = rng::mix(d, rng::fnv(&scrub(&r.stderr)));
        for t in &r.trace {
            d = rng::mix(d, rng::fnv(&format!("{} {} {} {} {}", t.k, t.name, t.path, t.ret, t.errno)));
        }
        for (p, b) in &after {
            d = rng::mix(d, rng::mix(rng::fnv(p), rng::fnv_bytes(b)));
        }
        self.digest = d;
        RUN_DIGEST.with(|x| x.set(d));
        if std::env::var("NVSIM_DEBUG_RUNS").is_ok() {
            eprintln!("run {} {:?} {format} exit={} stdout={:x} stderr={:x} trace={} tree={} args={:?} out={}", self.runs, commands, r.exit, rng::fnv(&scrub(&r.stdout)), rng::fnv(&scrub(&r.stderr)), r.trace.len(), after.len(), self.args(commands, format), tail(&r.stdout_str()));
        }
        (r, after)
    }
}

fn expected_exit(sc: &E2Scenario) -> i32 {
    if sc.injected.is_empty() { 0 } else { 1 }
}

/// C18 fault-free: three formats x {check, generate}, verdict, agreement.
fn drive_c18(sc: &E2Scenario, rep: &mut RunReport) {
    let mut rn = Runner::new(sc);
    let tree0 = rn.tree0.clone();
    let h = sc.hash_seeds[0];
    let rd = Some(sc.readdir_seeds[0]);
    let mut by: BTreeMap<(String, String), (CliResult, Option<Parsed>)> = BTreeMap::new();
    for cmds in [&["check"][..], &["generate"][..], &["check", "generate"][..]] {
        for fmt in ["json", "rdjson", "human"] {
            if cmds.len() == 2 && fmt != "json" {
                continue;
            }
            sandbox::reset_tree(&tree0);
            let dirs_before = sandbox::snapshot_dirs();
            let (r, after) = rn.on_tree(cmds, fmt, h, rd, &[]);
            let inv = Invocation { commands: cmds, format: fmt, result: &r, before: &tree0, after: &after };
            let parsed = check_invocation(sc, &inv, rep, "");
            // directories count as well: `check` creates none, and `generate` creates none when
            // check fails (after a successful generate they are the parents of listed files)
            if !r.trapped() {
                let new_dirs: Vec<String> = sandbox::snapshot_dirs().difference(&dirs_before).cloned().collect();
                let failed_check = r.exit == 1 && parsed.as_ref().is_some_and(|p| !p.diags.is_empty());
                if !new_dirs.is_empty() && (!cmds.contains(&"generate") || failed_check) {
                    let class = if cmds.contains(&"generate") { "C18.7-writes-after-failed-check" } else { "C18.7-check-writes" };
                    rep.violate(&["C18"], class, format!("`{} --output-format {fmt}`: exit {} and the directories {new_dirs:?} were created", cmds.join(" "), r.exit));
                } else if r.exit == 0 && cmds.contains(&"generate") {
                    if let Some(p) = &parsed {
                        if fmt == "json" {
                            for d in &new_dirs {
                                if !p.listed.iter().any(|l| l.starts_with(&format!("{d}/"))) {
                                    rep.violate(&["C18"], "C18.7-written-not-listed", format!("`{}`: the directory {d} was created but holds no listed file", cmds.join(" ")));
                                }
                            }
                        }
                    }
                }
            }
            // riders on successful generation
            if cmds.contains(&"generate") && fmt == "json" && r.exit == 0 {
                if let Some(p) = &parsed {
                    artifacts::check_artifacts(sc, &tree0, &after, &p.listed, rep);
                }
            }
            by.insert((cmds.join("+"), fmt.to_string()), (r, parsed));
        }
    }
    rep.events += rn.runs;
    // 4. verdict
    let want = expected_exit(sc);
    for ((cmd, fmt), (r, parsed)) in &by {
        if r.trapped() {
            continue;
        }
        if r.exit != want {
            let class = if want == 0 { "C18.4-valid-project-rejected".to_string() } else { format!("C18.4-fault-accepted:{}", unlocated_class(sc)) };
            rep.violate(
                &["C18"],
                &class,
                format!("`{cmd}` ({fmt}) exits {} but the project has {} injected faults {:?}; output {}", r.exit, sc.injected.len(), sc.injected, tail(&if fmt == "human" { r.stderr_str() } else { r.stdout_str() })),
            );
            continue;
        }
        // every offending file of the earliest failing stage is named (check-stage diagnostics)
        if want == 1 && fmt == "json" {
            if let Some(p) = parsed {
                let min_stage = sc.injected.iter().map(|i| i.stage).min().unwrap();
                if min_stage >= 2 {
                    let named: BTreeSet<String> = p.diags.iter().filter_map(|d| d.file.as_ref().map(|f| indep::norm(f))).collect();
                    for i in sc.injected.iter().filter(|i| i.stage == min_stage) {
                        if !named.contains(&i.file) {
                            // structural sub-case: an import-stage fault in a file whose import
                            // closure contains another file with an import-stage fault. The
                            // resolver reports one error per document, positioned where the first
                            // fault of the traversal is - possibly in the imported file.
                            let masked = min_stage == 3 && {
                                let fi = sc.op_inputs().iter().position(|p| *p == i.file);
                                let model: Vec<(String, Vec<crate::model::ImportLine>, Vec<String>, bool)> =
                                    sc.project.ops.iter().enumerate().map(|(k, f)| (sc.project.op_abs(k), f.imports.clone(), vec![], true)).collect();
                                fi.is_some_and(|fi| {
                                    let reach = crate::e3::reference_closure(&model, fi).reach;
                                    sc.injected.iter().any(|o| o.stage == 3 && o.file != i.file && reach.iter().any(|r| sc.project.op_abs(*r) == o.file))
                                })
                            };
                            let class = if masked { "C18.4-import-fault-masked-by-imported-file" } else { "C18.4-offending-file-not-named" };
                            rep.violate(&["C18"], class, format!("`{cmd}`: {} ({}) is named by no diagnostic; named: {named:?}", i.file, i.kind));
                        }
                    }
                }
            }
        }
    }
    // 6. formats agree
    for cmd in ["check", "generate"] {
        let j = &by[&(cmd.to_string(), "json".to_string())];
        let rj = &by[&(cmd.to_string(), "rdjson".to_string())];
        let hu = &by[&(cmd.to_string(), "human".to_string())];
        if j.0.trapped() || rj.0.trapped() || hu.0.trapped() {
            continue;
        }
        if j.0.exit != rj.0.exit || j.0.exit != hu.0.exit {
            rep.violate(&["C18"], "C18.6-formats-exit-differs", format!("`{cmd}`: exit json={} rdjson={} human={}", j.0.exit, rj.0.exit, hu.0.exit));
        }
        if let (Some(pj), Some(pr)) = (&j.1, &rj.1) {
            let inputs: Vec<String> = sc.schema_inputs().into_iter().chain(sc.op_inputs()).collect();
            let mut a: Vec<(Option<String>, usize, usize)> = pj.diags.iter().map(|d| (d.file.as_ref().map(|f| indep::norm(f)), d.line, d.col)).collect();
            let b: Vec<(Option<String>, usize, usize)> = pr.diags.iter().map(|d| (d.file.as_ref().map(|f| indep::norm(f)), d.line, d.col)).collect();
            // command-level errors that the json format locates inside its message (syntax errors)
            // are diagnostics, too: rdjson carries them as located entries
            if let Some(m) = &pj.command_error {
                for (f, l, c) in located_in_text(m, &inputs) {
                    a.push((Some(f), l, c));
                }
            }
            // unlocated json diagnostics have no rdjson position to compare
            let a2: Vec<_> = a.iter().filter(|x| x.0.is_some()).cloned().collect();
            let b2: Vec<_> = b.iter().filter(|x| x.0.is_some()).cloned().collect();
            if a2 != b2 || a.len() != b.len() {
                rep.violate(&["C18"], "C18.6-json-rdjson-differ", format!("`{cmd}`: json lists {a:?}, rdjson lists {b:?}"));
            }
            // the human rendering shows every located json diagnostic
            let shown: BTreeSet<(String, usize, usize)> = located_in_text(&hu.0.stderr_str(), &inputs).into_iter().collect();
            for (f, l, c) in a2 {
                let f = indep::norm(&f.unwrap());
                if !shown.contains(&(f.clone(), l, c)) {
                    rep.violate(&["C18"], "C18.6-human-omits-diagnostic", format!("`{cmd}`: human output lacks {f}:{}:{}", l + 1, c + 1));
                }
            }
        }
    }
    if !sc.injected.is_empty() {
        rep.probe("project_with_injected_faults");
        for i in &sc.injected {
            rep.probe(&format!("inject:{}", i.kind));
        }
    } else {
        rep.probe("valid_project");
    }
}

/// C06 / C20 riders on a plain successful `generate`.
fn drive_arte(sc: &E2Scenario, rep: &mut RunReport) {
    let mut rn = Runner::new(sc);
    let tree0 = rn.tree0.clone();
    let (r, after) = rn.fresh(&["generate"], "json", sc.hash_seeds[0], Some(sc.readdir_seeds[0]), &[]);
    rep.events += rn.runs;
    if r.trapped() {
        rep.violate(&["C18", "C08"], &format!("trap@{}", r.panic_site()), format!("exit {} {}", r.exit, tail(&r.stderr_str())));
        return;
    }
    if r.exit != 0 {
        rep.probe("generate_failed");
        // with documents outside the config directory the pinned CLI cannot resolve imports
        // (a C13/C20 matter judged by the c13 class); nothing to inspect here
        return;
    }
    if let Ok(p) = parse_output("json", &r) {
        rep.probe("generate_ok");
        artifacts::check_artifacts(sc, &tree0, &after, &p.listed, rep);
    }
    // A history: some GraphQL inputs are edited in a way that moves every position but leaves the
    // generated declarations as they were (comment lines on top), then `generate` runs again over
    // the outputs of the first run.  The maps must describe the edited inputs (C06), and the
    // tree must equal what a run on a clean copy of the edited project produces (C17).
    let mut re = Rng::new(sc.faults.sample_seed ^ 0xed17);
    if re.chance(1, 2) {
        let mut edited = tree0.clone();
        let mut only: Tree = Tree::new();
        let inputs: Vec<String> = sc.op_inputs().into_iter().chain(if sc.project.introspection() { vec![] } else { sc.schema_inputs() }).collect();
        for f in &inputs {
            if re.chance(1, 2) {
                let n = 1 + re.below(3);
                let mut b = "# edited: a comment line that moves everything below it\n".repeat(n).into_bytes();
                b.extend_from_slice(&tree0[f]);
                edited.insert(f.clone(), b.clone());
                only.insert(f.clone(), b);
            }
        }
        if !only.is_empty() {
            if re.chance(1, 3) {
                sandbox::write_tree_with_mtime(&only, 978_307_200 + re.below(1_000_000) as u64);
                rep.fault("restore_with_old_mtime");
            } else {
                sandbox::write_tree(&only);
            }
            rep.fault("input_edit_between_runs");
            let (r2, after2) = rn.on_tree(&["generate"], "json", sc.hash_seeds[0], Some(sc.readdir_seeds[0]), &[]);
            rep.events += 1;
            if r2.trapped() {
                rep.violate(&["C18", "C08"], &format!("trap@{}", r2.panic_site()), format!("re-generate after an edit: exit {} {}", r2.exit, tail(&r2.stderr_str())));
            } else if r2.exit == 0 {
                if let Ok(p2) = parse_output("json", &r2) {
                    rep.probe("regenerated_after_edit");
                    artifacts::check_artifacts(sc, &edited, &after2, &p2.listed, rep);
                    let (r3, after3) = {
                        sandbox::reset_tree(&edited);
                        rn.on_tree(&["generate"], "json", sc.hash_seeds[0], Some(sc.readdir_seeds[0]), &[])
                    };
                    rep.events += 1;
                    if r3.exit != r2.exit || r3.stdout != r2.stdout || after3 != after2 {
                        rep.violate(
                            &["C17"],
                            "C17.2-stale-outputs-shine-through",
                            format!("generate after an edit of the inputs, over the outputs of the earlier run, differs from generate on a clean copy of the edited project: {:?}", changed_paths(&after3, &after2)),
                        );
                    }
                }
            } else {
                rep.violate(&["C17"], "C17.2-rerun-output-differs", format!("generate succeeded, comment lines were put on top of some inputs, and generate now exits {}: {}", r2.exit, tail(&r2.stdout_str())));
            }
        }
    }
}

/// value exports of a declaration file or JS module: (exported const names, default -> const name,
/// const name -> text of its initialiser when there is one)
pub fn scan_exports(text: &str) -> (BTreeSet<String>, Option<String>, BTreeMap<String, String>) {
    let mut exported = BTreeSet::new();
    let mut default = None;
    let mut init = BTreeMap::new();
    for l in text.split('\n') {
        let t = l.trim_start();
        let (is_export, rest) = match t.strip_prefix("export ") {
            Some(r) => (true, r),
            None => (false, t),
        };
        let rest = rest.strip_prefix("declare ").unwrap_or(rest);
        if let Some(r) = rest.strip_prefix("const ") {
            let name: String = r.chars().take_while(|c| c.is_ascii_alphanumeric() || *c == '_' || *c == '$').collect();
            if name.is_empty() {
                continue;
            }
            if is_export {
                exported.insert(name.clone());
            }
            // initialiser: after " = " up to the end of the statement on this line
            if let Some(eq) = r.find(" = ") {
                let body = r[eq + 3..].trim_end();
                let body = body.strip_suffix(';').unwrap_or(body);
                // `... = {json} as unknown as TypedDocumentNode<..>` in standalone mode
                let body = match body.find(" as unknown as ") {
                    Some(i) => &body[..i],
                    None => body,
                };
                init.insert(name, body.to_string());
            }
        } else if is_export && rest.starts_with('{') {
            // export { X as default };
            let inner = rest.trim_start_matches('{').split('}').next().unwrap_or("");
            for part in inner.split(',') {
                let w: Vec<&str> = part.split_whitespace().collect();
                if w.len() == 3 && w[1] == "as" && w[2] == "default" {
                    default = Some(w[0].to_string());
                } else if w.len() == 1 {
                    exported.insert(w[0].to_string());
                }
            }
        } else if is_export && rest.starts_with("default ") {
            let n: String = rest[8..].chars().take_while(|c| c.is_ascii_alphanumeric() || *c == '_' || *c == '$').collect();
            default = Some(n);
        }
    }
    (exported, default, init)
}

fn doc_head(json_text: &str) -> Option<(String, Option<String>)> {
    let v: Value = serde_json::from_str(json_text).ok()?;
    let d = v.get("definitions")?.get(0)?;
    let kind = d.get("kind")?.as_str()?.to_string();
    let name = d.pointer("/name/value").and_then(|n| n.as_str()).map(String::from);
    Some((kind, name))
}

/// C14: value exports of the CLI's declaration file vs the module the loader emits for the
/// same file and config text, the loader being driven by all modules of the project at once
/// under a seeded schedule.
fn drive_c14(sc: &E2Scenario, rep: &mut RunReport) {
    use crate::e1;
    let mut rn = Runner::new(sc);
    let p = &sc.project;
    // half of the runs: the project directory has been generated before under an earlier version
    // of the configuration (other naming / export options, sometimes another mode); only the config
    // file is edited afterwards, and `generate` runs again over the outputs of that earlier run
    let mut rh = Rng::new(sc.faults.sample_seed ^ 0xc14c14);
    let (r, after) = if rh.chance(1, 2) {
        let mut g = p.config.generate.clone();
        if let Some(o) = g.as_object_mut() {
            let dflt = p.config.generate.pointer("/export/defaultExportForOperation").and_then(|v| v.as_bool()).unwrap_or(true);
            let cap = p.config.generate.pointer("/name/capitalizeOperationNames").and_then(|v| v.as_bool()).unwrap_or(true);
            o.insert("name".into(), json!({"capitalizeOperationNames": !cap, "queryVariableSuffix": "Zq", "mutationVariableSuffix": "Zm", "subscriptionVariableSuffix": "Zs", "fragmentVariableSuffix": "Zf"}));
            o.insert("export".into(), json!({"defaultExportForOperation": !dflt, "operationResultType": true, "variablesType": true}));
            if rh.chance(1, 3) {
                let other = if p.mode() == "standalone-ts-4.0" { "with-loader-ts-5.0" } else { "standalone-ts-4.0" };
                o.insert("mode".into(), json!(other));
            }
        }
        let earlier = p.config_text_of(&p.config_value_with(&g));
        let mut t = rn.tree0.clone();
        t.insert(p.config_path(), earlier.into_bytes());
        // ... and some operation files had one more operation at their end back then
        let mut restore: Tree = Tree::new();
        for (k, f) in sc.op_inputs().iter().enumerate() {
            if rh.chance(1, 2) {
                let mut b = t[f].clone();
                b.extend_from_slice(format!("\nquery ZzEarlierOperation{k} {{\n  __typename\n}}\n").as_bytes());
                restore.insert(f.clone(), t[f].clone());
                t.insert(f.clone(), b);
            }
        }
        sandbox::reset_tree(&t);
        let (r0, _) = rn.on_tree(&["generate"], "json", sc.hash_seeds[0], Some(sc.readdir_seeds[0]), &[]);
        rep.probe(if r0.exit == 0 { "generated_before_under_other_config" } else { "earlier_config_run_failed" });
        rep.fault("config_edit_between_runs");
        let mut only_cfg: Tree = [(p.config_path(), p.config_text().into_bytes())].into_iter().collect();
        only_cfg.extend(restore);
        // (restored from a backup that keeps time stamps, or edited now)
        if rh.chance(1, 2) {
            sandbox::write_tree_with_mtime(&only_cfg, 978_307_200 + rh.below(1_000_000) as u64);
            rep.fault("restore_with_old_mtime");
        } else {
            sandbox::write_tree(&only_cfg);
        }
        rn.on_tree(&["generate"], "json", sc.hash_seeds[0], Some(sc.readdir_seeds[0]), &[])
    } else {
        rn.fresh(&["generate"], "json", sc.hash_seeds[0], Some(sc.readdir_seeds[0]), &[])
    };
    rep.events += rn.runs;
    if r.trapped() {
        rep.violate(&["C18", "C08"], &format!("trap@{}", r.panic_site()), format!("exit {} {}", r.exit, tail(&r.stderr_str())));
        return;
    }
    if r.exit != 0 {
        rep.probe("generate_failed");
        return;
    }
    let texts: BTreeMap<String, String> = sc.tree.iter().cloned().collect();
    let files: Vec<e1::HostFile> = (0..p.ops.len())
        .map(|i| e1::HostFile { path: p.op_abs(i), versions: vec![e1::FileVersion { text: texts[&p.op_abs(i)].clone(), imports: Some(p.ops[i].imports.iter().map(|x| x.spelling.clone()).collect()) }], exists: true })
        .collect();
    let mut rs = Rng::new(sc.faults.sample_seed);
    let mut modules: Vec<usize> = (0..files.len()).collect();
    rs.shuffle(&mut modules);
    let plan = e1::L1Plan { modules: modules.clone(), sched_seed: rs.next_u64(), pct: rs.chance(1, 3), env: vec![], read_faults: vec![], config: Some(0) };
    let e1sc = e1::E1Scenario {
        variant: "c14".into(),
        hash_seed: sc.hash_seeds[1 % sc.hash_seeds.len()],
        alt_hash_seed: 0,
        files,
        configs: vec![p.config_text()],
        ops: vec![],
        l1: Some(plan.clone()),
        debug_log: false,
    };
    let e1sc2 = e1sc.clone();
    // half of the runs: the same loader instance has served another configuration before
    // (a module built under other naming options), as when a bundler process switches config files
    let warm_up = rs.chance(1, 2);
    if warm_up {
        rep.fault("config_switch_before");
    }
    let other_config = "extensions:\n  nitrogql:\n    generate:\n      name:\n        capitalizeOperationNames: false\n        queryVariableSuffix: Zq\n        mutationVariableSuffix: Zm\n        subscriptionVariableSuffix: Zs\n        fragmentVariableSuffix: Zf\n      export:\n        defaultExportForOperation: false\n";
    let (calls, sub) = crate::hashseed::on_fresh_instance(e1sc.hash_seed, move || {
        let mut sub = RunReport::default();
        let mut inst = e1::Instance::new();
        if warm_up {
            let mut w = e1sc2.clone();
            w.configs = vec![other_config.to_string()];
            let wplan = e1::L1Plan { modules: vec![plan.modules[0]], sched_seed: plan.sched_seed ^ 1, pct: false, env: vec![], read_faults: vec![], config: Some(0) };
            // slots of the warm-up are distinct from the slots of the real run
            let mut scratch = RunReport::default();
            let mut winst_calls = e1::run_l1_with_slot_base(&w, &wplan, &mut inst, &mut scratch, 1000);
            winst_calls.clear();
        }
        let calls = e1::run_l1(&e1sc2, &plan, &mut inst, &mut sub);
        (calls, sub)
    });
    rep.events += calls.len() as u64;
    for v in sub.violations {
        rep.violations.push(v);
    }
    let standalone = p.mode() == "standalone-ts-4.0";
    for (slot, &fi) in modules.iter().enumerate() {
        let decl = p.decl_abs(fi);
        let Some(dts) = after.get(&decl).map(|b| String::from_utf8_lossy(b).into_owned()) else {
            // generate succeeded: the declaration file that TypeScript pairs with this operation
            // file (`x.graphql` -> `x.d.graphql.ts` / `x.graphql.d.ts` / `x.graphql.ts`) must exist
            rep.violate(
                &["C14", "C20"],
                "C14.declaration-file-missing",
                format!("generate succeeded but there is no declaration file {decl} for {}", p.op_abs(fi)),
            );
            continue;
        };
        let emit = calls.iter().find(|c| matches!(&c.op, e1::Op::Emit { t: e1::TaskRef::Slot(s) } if *s == slot));
        let Some(emit) = emit else {
            rep.violate(&["C14"], "C14.loader-never-emits", format!("{}: the loader host never reached emit", p.op_abs(fi)));
            continue;
        };
        if emit.resp.ret != 1 {
            rep.violate(
                &["C14"],
                "C14.loader-emit-fails",
                format!("{}: the CLI generated {decl}, but the loader's emit_js fails: {:?}", p.op_abs(fi), emit.resp.result),
            );
            continue;
        }
        let js = emit.resp.result.clone().unwrap_or_default();
        let (d_exp, d_def, d_init) = scan_exports(&dts);
        let (j_exp, j_def, j_init) = scan_exports(&js);
        rep.probe("module_compared");
        let missing: Vec<&String> = d_exp.iter().filter(|n| !j_exp.contains(*n)).collect();
        if !missing.is_empty() {
            rep.violate(
                &["C14"],
                "C14.declared-export-missing-at-runtime",
                format!("{decl} declares value exports {missing:?} that the loader's module for {} does not export (module exports {j_exp:?}, default {j_def:?})", p.op_abs(fi)),
            );
        }
        match (&d_def, &j_def) {
            (Some(d), Some(j)) => {
                rep.probe("default_export_compared");
                let dh = if standalone { d_init.get(d).and_then(|t| doc_head(t)) } else { None };
                let jh = j_init.get(j).and_then(|t| doc_head(t));
                if d != j && !(standalone && dh.is_some() && dh == jh) {
                    rep.violate(&["C14"], "C14.default-export-differs", format!("{decl}: default is {d}, the loader's default is {j}"));
                }
                if standalone && dh != jh {
                    rep.violate(&["C14"], "C14.default-export-differs", format!("{decl}: default designates {dh:?}, the loader's default designates {jh:?}"));
                }
            }
            (Some(d), None) => rep.violate(&["C14"], "C14.default-export-missing-at-runtime", format!("{decl} declares default export {d}; the loader's module has no default export")),
            _ => {}
        }
        if standalone {
            for n in &d_exp {
                if let (Some(a), Some(b)) = (d_init.get(n), j_init.get(n)) {
                    let (va, vb) = (serde_json::from_str::<Value>(a), serde_json::from_str::<Value>(b));
                    if let (Ok(va), Ok(vb)) = (va, vb) {
                        rep.probe("standalone_document_compared");
                        if va != vb {
                            rep.violate(&["C14"], "C14.document-differs", format!("{decl}: the document of {n} differs from the loader's"));
                        }
                    }
                }
            }
        } else {
            // the constant must carry a document of this file: its first definition is an
            // operation or fragment defined in (or imported into) the file
            for n in &d_exp {
                if let Some((kind, name)) = j_init.get(n).and_then(|t| doc_head(t)) {
                    let own = p.ops[fi].defs.iter().any(|d| d.name().map(String::from) == name && (d.is_fragment() == (kind == "FragmentDefinition")));
                    let imported = kind == "FragmentDefinition";
                    if !own && !imported {
                        rep.violate(&["C14"], "C14.document-differs", format!("{decl}: runtime export {n} carries {kind} {name:?}, which the file does not define"));
                    }
                }
            }
        }
    }
}

/// C17: byte-identical outputs across hash seeds x directory orders, re-run, crash-then-rerun.
fn drive_c17(sc: &E2Scenario, rep: &mut RunReport) {
    let mut rn = Runner::new(sc);
    let tree0 = rn.tree0.clone();
    let cmds: &[&str] = &["check", "generate"];
    let mut golden: Option<(CliResult, Tree)> = None;
    for (hi, h) in sc.hash_seeds.iter().enumerate() {
        for (ri, rd) in sc.readdir_seeds.iter().enumerate() {
            for fmt in ["json", "human"] {
                if fmt == "human" && (hi > 1 || ri > 0) {
                    continue;
                }
                let (r, after) = rn.fresh(cmds, fmt, *h, Some(*rd), &[]);
                if r.trapped() {
                    rep.violate(&["C17", "C18", "C08"], &format!("trap@{}", r.panic_site()), format!("exit {} {}", r.exit, tail(&r.stderr_str())));
                    continue;
                }
                if fmt == "human" {
                    // human diagnostics: compared among themselves
                    match &golden {
                        Some((g, _)) if g.exit != r.exit => {
                            rep.violate(&["C17"], "C17.1-exit-differs", format!("human exit {} vs json exit {}", r.exit, g.exit));
                        }
                        _ => {}
                    }
                    continue;
                }
                match &golden {
                    None => {
                        if r.exit == 0 {
                            let inv = Invocation { commands: cmds, format: fmt, result: &r, before: &tree0, after: &after };
                            let mut scratch = RunReport::default();
                            if let Some(p) = check_invocation(sc, &inv, &mut scratch, "") {
                                artifacts::check_artifacts(sc, &tree0, &after, &p.listed, rep);
                            }
                        }
                        golden = Some((r, after));
                    }
                    Some((g, gtree)) => {
                        if g.exit != r.exit {
                            rep.violate(&["C17"], "C17.1-exit-differs", format!("hash seed {h} / dir order {rd}: exit {} vs {}", r.exit, g.exit));
                        } else if g.stdout != r.stdout {
                            rep.violate(
                                &["C17"],
                                "C17.1-stdout-differs",
                                format!("hash seed {h} / dir order {rd}: stdout differs: {} VS {}", tail(&g.stdout_str()), tail(&r.stdout_str())),
                            );
                        } else if g.stderr != r.stderr {
                            rep.violate(&["C17"], "C17.1-stderr-differs", format!("hash seed {h} / dir order {rd}: stderr differs"));
                        }
                        if *gtree != after {
                            let d = changed_paths(gtree, &after);
                            let which = if d.iter().any(|p| p.ends_with(".map")) && d.iter().all(|p| p.ends_with(".map")) { "C17.1-map-bytes-differ" } else { "C17.1-file-bytes-differ" };
                            rep.violate(&["C17"], which, format!("hash seed {h} / dir order {rd}: generated files differ: {d:?}"));
                        }
                    }
                }
            }
        }
    }
    // human-format stderr across two hash seeds
    if sc.hash_seeds.len() >= 2 {
        let (a, _) = rn.fresh(cmds, "human", sc.hash_seeds[0], Some(sc.readdir_seeds[0]), &[]);
        let (b, _) = rn.fresh(cmds, "human", sc.hash_seeds[1], Some(sc.readdir_seeds[1]), &[]);
        if !a.trapped() && !b.trapped() && (a.stderr != b.stderr || a.exit != b.exit) {
            rep.violate(&["C17"], "C17.1-stderr-differs", format!("human diagnostics differ between hash seeds: {} VS {}", tail(&a.stderr_str()), tail(&b.stderr_str())));
        }
    }
    let Some((g, gtree)) = golden else {
        rep.events += rn.runs;
        return;
    };
    if g.exit == 0 {
        // 4. in-process = CLI (E4): the same pipeline through the library API, on a thread
        //    with another hash seed, must produce the text of every declaration file
        let p = &sc.project;
        if p.gen_str("schemaModuleSpecifier").is_some() && p.config.plugins.is_empty() && !p.introspection() {
            let texts: BTreeMap<String, String> = sc.tree.iter().cloned().collect();
            let schema_in = sc.schema_inputs();
            let op_in = sc.op_inputs();
            let mut order_s: Vec<String> = Vec::new();
            let mut order_o: Vec<String> = Vec::new();
            for t in g.trace.iter().filter(|t| t.name == "open_r") {
                let np = indep::norm(&t.path);
                if schema_in.contains(&np) && !order_s.contains(&np) {
                    order_s.push(np);
                } else if op_in.contains(&np) && !order_o.contains(&np) {
                    order_o.push(np);
                }
            }
            if order_s.len() == schema_in.len() && order_o.len() == op_in.len() {
                let sfiles: Vec<(String, String)> = order_s.iter().map(|p| (p.clone(), texts[p].clone())).collect();
                let ofiles: Vec<(String, String)> = order_o.iter().map(|p| (p.clone(), texts[p].clone())).collect();
                let cfg = p.config_text();
                let hs = sc.hash_seeds[0] ^ 0x5a5a_1234;
                // The same thread has served another schema before (as a long-lived process that calls
                // the library does): a variant of this schema in which no type implements an
                // interface, without operations.  Its result is ignored.
                let decoy: Vec<(String, String)> = sfiles
                    .iter()
                    .map(|(p, t)| {
                        let t2: Vec<String> = t
                            .split('\n')
                            .map(|l| {
                                let head = l.starts_with("type ") || l.starts_with("interface ") || l.starts_with("extend type ");
                                match (head, l.find(" implements ")) {
                                    (true, Some(i)) => {
                                        let rest = &l[i..];
                                        let j = rest.find(" @").or_else(|| rest.find(" {")).unwrap_or(rest.len());
                                        format!("{}{}", &l[..i], &rest[j..])
                                    }
                                    _ => l.to_string(),
                                }
                            })
                            .collect();
                        (p.clone(), t2.join("\n"))
                    })
                    .collect();
                rep.probe("library_thread_reused_across_schemas");
                let out = crate::hashseed::on_fresh_instance(hs, move || {
                    let _ = crate::libgen::lib_generate(&cfg, &decoy, &[]);
                    crate::libgen::lib_generate(&cfg, &sfiles, &ofiles)
                });
                match out {
                    Err(e) => rep.violate(&["C17"], "C17.4-library-pipeline-fails", format!("the CLI generated successfully but the library pipeline fails: {e}")),
                    Ok(lib) => {
                        rep.probe("library_pipeline_compared");
                        let trailer = |path: &str| format!("\n//# sourceMappingURL={}.map\n", indep::basename(path));
                        let mut cmp = |path: String, text: &String, what: &str| {
                            if let Some(cli) = gtree.get(&path) {
                                let want = format!("{text}{}", trailer(&path));
                                if *cli != want.as_bytes() {
                                    rep.violate(
                                        &["C17"],
                                        &format!("C17.4-library-differs-from-cli:{what}"),
                                        format!("{path}: the text produced through the library API in-process differs from the file the CLI wrote ({} vs {} bytes)", want.len(), cli.len()),
                                    );
                                }
                            }
                        };
                        if let Some(so) = p.gen_str("schemaOutput") {
                            cmp(p.abs(&so), &lib.schema, "schema");
                        }
                        if let Some(ro) = p.gen_str("resolversOutput") {
                            cmp(p.abs(&ro), &lib.resolvers, "resolvers");
                        }
                        for (i, op) in op_in.iter().enumerate() {
                            if let Some(t) = lib.ops.get(op) {
                                cmp(p.decl_abs(i), t, "operation");
                            }
                        }
                        if let Some(go) = p.gen_str("serverGraphqlOutput") {
                            // (no source map, hence no trailer)
                            let path = p.abs(&go);
                            if let Some(cli) = gtree.get(&path) {
                                rep.probe("library_server_graphql_compared");
                                if *cli != lib.server_graphql.as_bytes() {
                                    rep.violate(
                                        &["C17"],
                                        "C17.4-library-differs-from-cli:server-graphql",
                                        format!("{path}: the server schema module produced through the library API differs from the file the CLI wrote ({} vs {} bytes)", lib.server_graphql.len(), cli.len()),
                                    );
                                }
                            }
                        }
                    }
                }
            }
        }
        // 5. the order in which the schema files are loaded is incidental (it follows their names):
        //    with names that sort the other way round, the verdict is the same and every generated
        //    file consists of the same tokens (declarations and union members may change places,
        //    nothing may appear, vanish or change) - the environment-driven part of sentence 2
        {
            let p = &sc.project;
            let sin = sc.schema_inputs();
            // (an introspection result is one file: there the order in which the server lists the
            // types is the incidental one)
            if p.introspection() && sin.len() == 1 {
                let mut rev = p.schema.clone();
                rev.types.reverse();
                let mut t2 = tree0.clone();
                t2.insert(sin[0].clone(), crate::wgen::render_introspection(&rev, p.schema.types.len() % 2 == 0).into_bytes());
                sandbox::reset_tree(&t2);
                let (r5, after5) = rn.on_tree(cmds, "json", sc.hash_seeds[0], Some(sc.readdir_seeds[0]), &[]);
                rep.probe("introspection_types_listed_in_reverse_order");
                if r5.trapped() {
                    rep.violate(&["C17", "C18", "C08"], &format!("trap@{}", r5.panic_site()), format!("introspection types reversed: exit {} {}", r5.exit, tail(&r5.stderr_str())));
                } else if r5.exit != g.exit {
                    rep.violate(&["C17"], "C17.5-file-order-changes-verdict", format!("the introspection result lists its types in reverse order: exit {} instead of {}", r5.exit, g.exit));
                } else {
                    for (path, b) in &gtree {
                        if tree0.contains_key(path) || path.ends_with(".map") {
                            continue;
                        }
                        if after5.get(path).map(|x| sorted_tokens(x)) != Some(sorted_tokens(b)) {
                            rep.violate(
                                &["C17"],
                                "C17.5-file-order-changes-output",
                                format!("the introspection result lists its types in reverse order: {path} does not consist of the same tokens any more"),
                            );
                        }
                    }
                }
            }
            // (only when the schema is configured by wildcard patterns, not by file names)
            let by_glob = sin.len() >= 2 && !p.introspection() && sin.iter().all(|f| !p.config.schema_globs.iter().any(|g| g.contains(indep::basename(f))));
            if by_glob {
                let mut sorted = sin.clone();
                sorted.sort();
                let n = sorted.len();
                // half of the time the renaming happens in the directory that already holds the outputs
                // of the first run (a history: generate, `git mv` the schema files, generate)
                let over_outputs = Rng::new(sc.faults.sample_seed ^ 0x17e5).chance(1, 2);
                let mut t2 = if over_outputs { gtree.clone() } else { tree0.clone() };
                let mut before2 = tree0.clone();
                let mut sc2 = sc.clone();
                for (i, f) in sorted.iter().enumerate() {
                    let b = t2.remove(f).unwrap();
                    before2.remove(f);
                    // first becomes last: prefixes that sort in reverse
                    let renamed = format!("{}/r{}-{}", indep::dirname(f), n - i, indep::basename(f));
                    t2.insert(renamed.clone(), b.clone());
                    before2.insert(renamed, b);
                    if let Some(k) = sin.iter().position(|x| x == f) {
                        let rel = &sc.project.schema_paths[k];
                        sc2.project.schema_paths[k] = if rel.contains('/') { format!("{}/r{}-{}", indep::dirname(rel), n - i, indep::basename(rel)) } else { format!("r{}-{}", n - i, rel) };
                    }
                }
                sandbox::reset_tree(&t2);
                let (r5, after5) = rn.on_tree(cmds, "json", sc.hash_seeds[0], Some(sc.readdir_seeds[0]), &[]);
                rep.probe("schema_files_loaded_in_reverse_order");
                if over_outputs {
                    rep.fault("inputs_renamed_between_runs");
                }
                // the maps must name the renamed inputs (C06 / C20), also when older maps were lying around
                if !r5.trapped() && r5.exit == 0 {
                    if let Ok(p5) = parse_output("json", &r5) {
                        artifacts::check_artifacts(&sc2, &before2, &after5, &p5.listed, rep);
                    }
                }
                if r5.trapped() {
                    rep.violate(&["C17", "C18", "C08"], &format!("trap@{}", r5.panic_site()), format!("schema files renamed: exit {} {}", r5.exit, tail(&r5.stderr_str())));
                } else if r5.exit != g.exit {
                    rep.violate(&["C17"], "C17.5-file-order-changes-verdict", format!("schema files renamed so that they load in reverse order: exit {} instead of {}: {}", r5.exit, g.exit, tail(&r5.stdout_str())));
                } else {
                    let toks = |b: &Vec<u8>| -> Vec<String> { sorted_tokens(b) };
                    let _unused = |b: &Vec<u8>| -> Vec<String> {
                        let t = String::from_utf8_lossy(b);
                        let mut out: Vec<String> = Vec::new();
                        let mut cur = String::new();
                        for ch in t.chars() {
                            if ch.is_alphanumeric() || ch == '_' || ch == '$' {
                                cur.push(ch);
                            } else {
                                if !cur.is_empty() {
                                    out.push(std::mem::take(&mut cur));
                                }
                                if !ch.is_whitespace() {
                                    out.push(ch.to_string());
                                }
                            }
                        }
                        if !cur.is_empty() {
                            out.push(cur);
                        }
                        out.sort();
                        out
                    };
                    for (path, b) in &gtree {
                        if tree0.contains_key(path) || path.ends_with(".map") {
                            continue;
                        }
                        match after5.get(path) {
                            None => rep.violate(&["C17"], "C17.5-file-order-changes-output", format!("schema files renamed: {path} is no longer generated")),
                            Some(b5) => {
                                if toks(b) != toks(b5) {
                                    rep.violate(
                                        &["C17"],
                                        "C17.5-file-order-changes-output",
                                        format!("schema files renamed so that they load in reverse order: {path} does not consist of the same tokens any more ({} vs {} bytes)", b.len(), b5.len()),
                                    );
                                }
                            }
                        }
                    }
                }
            }
        }
        // 2. re-run on the tree left by the first run
        sandbox::reset_tree(&gtree);
        let (r2, after2) = rn.on_tree(cmds, "json", sc.hash_seeds[sc.hash_seeds.len() - 1], Some(sc.readdir_seeds[1]), &[]);
        if r2.exit != g.exit || r2.stdout != g.stdout {
            rep.violate(&["C17"], "C17.2-rerun-output-differs", format!("second run on the generated tree: exit {} stdout {}", r2.exit, tail(&r2.stdout_str())));
        }
        if after2 != gtree {
            rep.violate(&["C17"], "C17.2-rerun-files-differ", format!("second run changes {:?}", changed_paths(&gtree, &after2)));
        }
        rep.probe("rerun_on_generated_tree");
        // 2b. leftovers of an earlier, different version of the project at the same paths
        //     (longer files, other bytes) must not shine through
        {
            let mut stale = gtree.clone();
            let mut rl = Rng::new(sc.faults.sample_seed ^ 0x57a1e);
            for (pth, b) in stale.iter_mut() {
                if tree0.contains_key(pth) {
                    continue;
                }
                match rl.below(3) {
                    0 => b.extend_from_slice("\n// leftover of an earlier, larger version\n".repeat(1 + rl.below(40)).as_bytes()),
                    1 => {
                        for x in b.iter_mut() {
                            *x = b'#';
                        }
                    }
                    _ => b.truncate(b.len() / 2),
                }
            }
            sandbox::reset_tree(&stale);
            let (r4, after4) = rn.on_tree(cmds, "json", sc.hash_seeds[0], Some(sc.readdir_seeds[0]), &[]);
            if r4.exit != g.exit || r4.stdout != g.stdout || after4 != gtree {
                rep.violate(
                    &["C17", "C18"],
                    "C17.2-stale-outputs-shine-through",
                    format!("generate over leftovers of an earlier version at the output paths: exit {} files differing from a clean generation: {:?}", r4.exit, changed_paths(&gtree, &after4)),
                );
            }
            rep.probe("generate_over_stale_outputs");
        }
        // 3. crash at a sampled tree call, then a fault-free run converges to golden
        let n_calls = g.trace.len();
        if n_calls > 0 {
            let mut rf = Rng::new(sc.faults.sample_seed);
            let ks: Vec<usize> = if !sc.faults.pinned.is_empty() {
                sc.faults.pinned.iter().map(|f| f.k).collect()
            } else if sc.faults.sweep {
                // thorough tier: a crash before every intercepted call of the fault-free trace
                (0..n_calls).collect()
            } else {
                (0..2).map(|_| rf.below(n_calls)).collect()
            };
            for k in ks {
                let action = if g.trace.get(k).is_some_and(|t| t.name == "write") && rf.chance(1, 2) { "torncrash" } else { "crash" };
                let (rc, _) = rn.fresh(cmds, "json", sc.hash_seeds[0], Some(sc.readdir_seeds[0]), &[Fault { k, action: action.into(), arg: rf.below(50) as i64 }]);
                if !rc.crashed_by_shim() {
                    continue;
                }
                rep.fault(action);
                let wrote_before = rc.trace.iter().any(|t| t.name == "write" && t.injected.is_none());
                rep.probe(if wrote_before { "crash_after_first_write" } else { "crash_before_first_write" });
                let (r3, after3) = rn.on_tree(cmds, "json", sc.hash_seeds[1 % sc.hash_seeds.len()], Some(sc.readdir_seeds[1]), &[]);
                if r3.exit != g.exit || r3.stdout != g.stdout || !covers(&gtree, &after3) {
                    rep.violate(
                        &["C17", "C18"],
                        "C17.3-crash-rerun-differs",
                        format!("crash at tree call {k} ({action}), then a clean run: exit {} files differing {:?}", r3.exit, changed_paths(&gtree, &after3)),
                    );
                }
            }
        }
    } else if g.exit == 1 && !g.trapped() {
        // a project that `check` rejects stays rejected when its schema files load in reverse order
        let p = &sc.project;
        let sin = sc.schema_inputs();
        let by_glob = sin.len() >= 2 && !p.introspection() && sin.iter().all(|f| !p.config.schema_globs.iter().any(|g| g.contains(indep::basename(f))));
        if by_glob {
            let mut sorted = sin.clone();
            sorted.sort();
            let n = sorted.len();
            let mut t2 = tree0.clone();
            for (i, f) in sorted.iter().enumerate() {
                let b = t2.remove(f).unwrap();
                t2.insert(format!("{}/r{}-{}", indep::dirname(f), n - i, indep::basename(f)), b);
            }
            sandbox::reset_tree(&t2);
            let (r5, _) = rn.on_tree(cmds, "json", sc.hash_seeds[0], Some(sc.readdir_seeds[0]), &[]);
            rep.probe("rejected_project_with_schema_files_in_reverse_order");
            if r5.trapped() {
                rep.violate(&["C17", "C18", "C08"], &format!("trap@{}", r5.panic_site()), format!("schema files renamed: exit {} {}", r5.exit, tail(&r5.stderr_str())));
            } else if r5.exit != g.exit {
                rep.violate(&["C17"], "C17.5-file-order-changes-verdict", format!("a project that check rejects is accepted (exit {}) when its schema files are renamed so that they load in reverse order", r5.exit));
            }
        }
    }
    rep.events += rn.runs;
}

/// Every file of the fault-free result is there with its bytes.  Extra files are allowed: what an
/// interrupted run left behind (a partial output, a temporary file) need not be cleaned up by a
/// later run - no statement says so - but nothing generated may differ.
fn covers(golden: &Tree, after: &Tree) -> bool {
    golden.iter().all(|(p, b)| after.get(p) == Some(b))
}

/// the multiset of tokens of a generated text (identifiers / numbers, and every other
/// non-blank character on its own), sorted
fn sorted_tokens(b: &[u8]) -> Vec<String> {
    let t = String::from_utf8_lossy(b);
    let mut out: Vec<String> = Vec::new();
    let mut cur = String::new();
    for ch in t.chars() {
        if ch.is_alphanumeric() || ch == '_' || ch == '$' {
            cur.push(ch);
        } else {
            if !cur.is_empty() {
                out.push(std::mem::take(&mut cur));
            }
            if !ch.is_whitespace() {
                out.push(ch.to_string());
            }
        }
    }
    if !cur.is_empty() {
        out.push(cur);
    }
    out.sort();
    out
}

fn classify(trace_name: &str) -> &'static str {
    match trace_name {
        "open_r" | "read" | "stat" | "lstat" | "fstatat" | "statx" | "fstatx" | "fstat" | "opendir" | "readdir" | "readdir_end" => "input",
        "open_w" | "write" | "mkdir" | "rename" | "unlink" => "output",
        "close" => "close",
        _ => "other",
    }
}

/// C18 under single I/O faults and crashes.
fn drive_c18f(sc: &E2Scenario, rep: &mut RunReport) {
    let mut rn = Runner::new(sc);
    let tree0 = rn.tree0.clone();
    let cmds: &[&str] = &["check", "generate"];
    let h = sc.hash_seeds[0];
    let rd = Some(sc.readdir_seeds[0]);
    let (g, gtree) = rn.fresh(cmds, "json", h, rd, &[]);
    if g.trapped() || g.exit != 0 {
        // the golden run itself is judged by the c18 class; nothing to compare against here
        rep.probe("golden_not_successful");
        rep.events += rn.runs;
        return;
    }
    let Ok(gp) = parse_output("json", &g) else {
        rep.events += rn.runs;
        return;
    };
    let glisted: BTreeSet<String> = gp.listed.iter().cloned().collect();
    let n = g.trace.len();
    let mut plan: Vec<Fault> = Vec::new();
    if !sc.faults.pinned.is_empty() {
        plan = sc.faults.pinned.clone();
    } else {
        let mut rf = Rng::new(sc.faults.sample_seed);
        let ks: Vec<usize> = if sc.faults.sweep { (0..n).collect() } else { (0..sc.faults.sample).map(|_| rf.below(n.max(1))).collect() };
        for k in ks {
            let Some(t) = g.trace.get(k) else { continue };
            let actions: Vec<(&str, i64)> = match t.name.as_str() {
                "open_r" => vec![("errno", 2), ("errno", 13), ("errno", 24), ("errno", 5), ("eintr", 0), ("crash", 0)],
                "open_w" => vec![("errno", 13), ("errno", 28), ("errno", 30), ("eintr", 0), ("crash", 0), ("crashafter", 0)],
                "read" => vec![("errno", 5), ("short", rf.below(64) as i64), ("eintr", 0), ("crash", 0)],
                "write" => vec![("errno", 28), ("errno", 5), ("errno", 122), ("short", rf.below(64) as i64), ("eintr", 0), ("crash", 0), ("torncrash", rf.below(64) as i64), ("crashafter", 0)],
                "mkdir" => vec![("errno", 13), ("errno", 28), ("crash", 0)],
                "rename" => vec![("errno", 13), ("errno", 18), ("errno", 28), ("crash", 0)],
                "unlink" => vec![("errno", 13), ("crash", 0)],
                "stat" | "lstat" | "fstatat" | "statx" | "fstatx" | "fstat" => vec![("errno", 13), ("errno", 5)],
                "opendir" => vec![("errno", 13), ("errno", 24)],
                "readdir" | "readdir_end" => vec![("errno", 5)],
                "close" => vec![("crash", 0), ("crashafter", 0)],
                _ => vec![],
            };
            if actions.is_empty() {
                continue;
            }
            if sc.faults.sweep {
                for (a, arg) in actions {
                    plan.push(Fault { k, action: a.into(), arg });
                }
            } else {
                let (a, arg) = *rf.pick(&actions);
                plan.push(Fault { k, action: a.into(), arg });
            }
        }
    }
    // a quarter of the sampled plans carry a second, transparent fault (EINTR / short transfer) at
    // another read or write: two faults in one run, the second one must stay invisible
    let mut rf2 = Rng::new(sc.faults.sample_seed ^ 0x2f2f);
    let rw_calls: Vec<usize> = g.trace.iter().filter(|t| t.name == "read" || t.name == "write").map(|t| t.k).collect();
    for f in plan {
        let Some(t) = g.trace.get(f.k) else { continue };
        let side = classify(&t.name);
        let mut faults = vec![f.clone()];
        if !sc.faults.sweep && sc.faults.pinned.is_empty() && !rw_calls.is_empty() && rf2.chance(1, 4) && !f.action.contains("crash") {
            let k2 = *rf2.pick(&rw_calls);
            // the second fault has to come before the first one can end the run
            if k2 < f.k {
                let a2 = if rf2.chance(1, 2) { "eintr" } else { "short" };
                faults.push(Fault { k: k2, action: a2.into(), arg: rf2.below(32) as i64 });
                // the retry after EINTR, or the extra transfer after a short one, shifts the
                // numbering of every later call by one
                faults[0].k += 1;
                rep.fault("second_fault_transparent");
            }
        }
        let (r, after) = rn.fresh(cmds, "json", h, rd, &faults);
        let fired = r.trace.iter().any(|x| x.injected.as_deref() == Some(f.action.as_str()));
        if !fired {
            rep.probe("fault_not_reached");
            continue;
        }
        let label = if f.action == "errno" { format!("{}:{}", t.name, errno_name(f.arg)) } else { format!("{}:{}", t.name, f.action) };
        rep.fault(&label);
        let what = format!("fault {label} at tree call {} ({})", f.k, t.path);
        if r.crashed_by_shim() {
            // crash: inputs intact, and a clean re-run converges to golden
            for (p, b) in &tree0 {
                if after.get(p) != Some(b) {
                    rep.violate(&["C18"], "C18.7-input-modified", format!("{what}: input {p} changed by the interrupted run"));
                }
            }
            let (r2, after2) = rn.on_tree(cmds, "json", h, rd, &[]);
            if r2.exit != 0 || !covers(&gtree, &after2) || r2.stdout != g.stdout {
                rep.violate(&["C17", "C18"], "C17.3-crash-rerun-differs", format!("{what}: clean re-run after the crash: exit {} differing {:?}", r2.exit, changed_paths(&gtree, &after2)));
            }
            rep.probe("crash_then_rerun");
            continue;
        }
        if r.trapped() {
            rep.violate(&["C18", "C08"], &format!("trap@{}", r.panic_site()), format!("{what}: exit {} {}", r.exit, tail(&r.stderr_str())));
            continue;
        }
        if r.exit != 0 && r.exit != 1 {
            rep.violate(&["C18"], "C18.1-exit-status", format!("{what}: exit status {}", r.exit));
            continue;
        }
        let p = match parse_output("json", &r) {
            Ok(p) => p,
            Err(e) => {
                rep.violate(&["C18"], "C18.2-json-malformed", format!("{what}: {e}"));
                continue;
            }
        };
        let has_diag = p.command_error.is_some() || !p.diags.is_empty();
        if (r.exit == 0) == has_diag {
            rep.violate(&["C18"], "C18.3-exit-vs-diagnostics", format!("{what}: exit {} with diagnostics={has_diag}", r.exit));
        }
        for (path, b) in &tree0 {
            if after.get(path) != Some(b) {
                rep.violate(&["C18"], "C18.7-input-modified", format!("{what}: input {path} changed"));
            }
        }
        let listed: BTreeSet<String> = p.listed.iter().cloned().collect();
        let changed = changed_paths(&tree0, &after);
        let transparent = f.action == "eintr" || f.action == "short";
        if transparent {
            if r.exit == 0 {
                artifacts::check_artifacts(sc, &tree0, &after, &p.listed, rep);
            }
            if r.exit != g.exit || r.stdout != g.stdout || after != gtree {
                rep.violate(
                    &["C18", "C17"],
                    &format!("C18.F-transparent-fault-visible:{}", label),
                    format!("{what}: the run differs from the fault-free run: exit {} stdout {} files {:?}", r.exit, tail(&r.stdout_str()), changed_paths(&gtree, &after)),
                );
            }
            continue;
        }
        match side {
            "input" => {
                // the CLI may have seen a different project; only self-consistency is required
                if r.exit == 0 {
                    let unlisted: Vec<&String> = changed.iter().filter(|x| !listed.contains(*x)).collect();
                    if !unlisted.is_empty() {
                        rep.violate(&["C18"], "C18.7-written-not-listed", format!("{what}: wrote {unlisted:?} without listing them"));
                    }
                    for l in &listed {
                        if !after.contains_key(l) {
                            rep.violate(&["C18"], "C18.7-listed-missing", format!("{what}: listed file {l} does not exist"));
                        }
                    }
                } else if !changed.is_empty() && listed.is_empty() && !p.diags.is_empty() {
                    rep.violate(&["C18"], "C18.7-writes-after-failed-check", format!("{what}: check failed but {changed:?} changed"));
                }
            }
            _ => {
                // output side: inputs were delivered exactly as in the golden run
                if r.exit == 0 {
                    // whatever is announced as generated is judged like any other generation
                    artifacts::check_artifacts(sc, &tree0, &after, &p.listed, rep);
                    if after != gtree {
                        rep.violate(
                            &["C18", "C17"],
                            &format!("C18.F-success-after-failed-write:{}", label),
                            format!("{what}: exit 0 but the tree differs from the fault-free result: {:?}", changed_paths(&gtree, &after)),
                        );
                    }
                } else {
                    for l in &listed {
                        if !glisted.contains(l) {
                            rep.violate(&["C18"], "C18.F-listed-foreign", format!("{what}: lists {l}, which the fault-free run does not produce"));
                        } else if after.get(l) != gtree.get(l) {
                            rep.violate(
                                &["C18"],
                                "C18.F-listed-incomplete",
                                format!("{what}: {l} is announced as generated but its bytes differ from the complete file ({} vs {} bytes)", after.get(l).map(|b| b.len()).unwrap_or(0), gtree.get(l).map(|b| b.len()).unwrap_or(0)),
                            );
                        }
                    }
                    // nothing is created anywhere else: a failed run may leave an output incomplete,
                    // but not litter the project (temporary files are removed when the rename fails)
                    for c in &changed {
                        if !glisted.contains(c) {
                            rep.violate(&["C18"], "C18.F-stray-file", format!("{what}: exit 1 and {c}, which is not an output of the project, was created or changed"));
                        }
                    }
                    // ... and conversely every file that is completely on disk is announced: "generate
                    // writes exactly the files it lists" (partial files are not demanded to be listed -
                    // the statement does not promise atomic output)
                    for c in &changed {
                        if glisted.contains(c) && !listed.contains(c) && after.get(c).is_some() && after.get(c) == gtree.get(c) {
                            rep.violate(
                                &["C18"],
                                "C18.F-complete-file-not-listed",
                                format!("{what}: exit 1; {c} was written completely (same bytes as in the fault-free run) but the output does not list it; listed: {listed:?}"),
                            );
                        }
                    }
                    rep.probe("output_fault_reported");
                }
            }
        }
    }
    // An output path that is occupied by a directory (left by something else): no fault is injected,
    // the kernel itself refuses the write.
    let mut ro = Rng::new(sc.faults.sample_seed ^ 0x0cc);
    if sc.faults.pinned.is_empty() && !glisted.is_empty() && ro.chance(1, 3) {
        let victims: Vec<&String> = glisted.iter().collect();
        let victim = (*ro.pick(&victims)).clone();
        let mut t = tree0.clone();
        t.insert(format!("{victim}/.keep"), Vec::new());
        sandbox::reset_tree(&t);
        let (r, after) = rn.on_tree(cmds, "json", h, rd, &[]);
        rep.fault("output_path_is_a_directory");
        let what = format!("a directory sits at the output path {victim}");
        if r.trapped() {
            rep.violate(&["C18", "C08"], &format!("trap@{}", r.panic_site()), format!("{what}: exit {} {}", r.exit, tail(&r.stderr_str())));
        } else if r.exit == 0 {
            rep.violate(&["C18"], "C18.F-success-after-failed-write:occupied", format!("{what}: exit 0"));
        } else if r.exit != 1 {
            rep.violate(&["C18"], "C18.1-exit-status", format!("{what}: exit status {}", r.exit));
        } else {
            match parse_output("json", &r) {
                Err(e) => rep.violate(&["C18"], "C18.2-json-malformed", format!("{what}: {e}")),
                Ok(p) => {
                    let listed: BTreeSet<String> = p.listed.iter().cloned().collect();
                    for l in &listed {
                        if after.get(l) != gtree.get(l) || !glisted.contains(l) {
                            rep.violate(&["C18"], "C18.F-listed-incomplete", format!("{what}: {l} is announced as generated but is not the complete file"));
                        }
                    }
                    for c in changed_paths(&t, &after) {
                        if !glisted.contains(&c) {
                            rep.violate(&["C18"], "C18.F-stray-file", format!("{what}: exit 1 and {c}, which is not an output of the project, was created or changed"));
                        } else if !listed.contains(&c) && after.get(&c).is_some() && after.get(&c) == gtree.get(&c) {
                            rep.violate(&["C18"], "C18.F-complete-file-not-listed", format!("{what}: {c} was written completely but is not listed"));
                        }
                    }
                }
            }
        }
    }
    rep.events += rn.runs;
}

fn errno_name(e: i64) -> &'static str {
    match e {
        2 => "ENOENT",
        5 => "EIO",
        13 => "EACCES",
        24 => "EMFILE",
        28 => "ENOSPC",
        18 => "EXDEV",
        30 => "EROFS",
        122 => "EDQUOT",
        _ => "E?",
    }
}

/// Applies one at-rest corruption to a tree.
pub fn corrupt(tree: &mut Tree, c: &Corruption, all: &Tree) -> bool {
    let Some(orig) = tree.get(&c.path).cloned() else { return false };
    match c.kind.as_str() {
        "truncate" => {
            let k = c.a.min(orig.len());
            tree.insert(c.path.clone(), orig[..k].to_vec());
        }
        "bitflip" => {
            if orig.is_empty() {
                return false;
            }
            let mut b = orig.clone();
            let i = c.a % b.len();
            b[i] ^= 1 << (c.b % 8);
            tree.insert(c.path.clone(), b);
        }
        "splice" => {
            // head of this file + tail of another file of the tree
            let others: Vec<&Vec<u8>> = all.iter().filter(|(p, _)| **p != c.path).map(|(_, b)| b).collect();
            if others.is_empty() {
                return false;
            }
            let o = others[c.b % others.len()];
            let k = c.a.min(orig.len());
            let mut b = orig[..k].to_vec();
            b.extend_from_slice(&o[o.len() / 2..]);
            tree.insert(c.path.clone(), b);
        }
        "empty" => {
            tree.insert(c.path.clone(), vec![]);
        }
        "badutf8" => {
            let k = c.a.min(orig.len());
            let mut b = orig[..k].to_vec();
            b.extend_from_slice(&[0xff, 0xfe, 0xc3]);
            tree.insert(c.path.clone(), b);
        }
        "token_subst" => {
            // a slip of the editor (wrong completion, pasted over the wrong word): one name of the
            // file is replaced by another name that occurs in the same file
            let Ok(text) = String::from_utf8(orig.clone()) else { return false };
            let toks: Vec<indep::Tok> = indep::lex(&text).into_iter().filter(|t| t.kind == indep::TokKind::Name).collect();
            if toks.len() < 2 {
                return false;
            }
            let victim = &toks[c.a % toks.len()];
            let donor = &toks[(c.a / toks.len() + c.b * 7 + 1) % toks.len()];
            if victim.text == donor.text {
                return false;
            }
            let mut out = String::new();
            out.push_str(&text[..victim.byte]);
            out.push_str(&donor.text);
            out.push_str(&text[victim.byte + victim.text.len()..]);
            tree.insert(c.path.clone(), out.into_bytes());
        }
        "token_insert" => {
            // a mis-paste: a token of the file (a name, a string, a brace, ...) lands in front of another token
            let Ok(text) = String::from_utf8(orig.clone()) else { return false };
            let toks = indep::lex(&text);
            if toks.len() < 2 {
                return false;
            }
            let victim = &toks[c.a % toks.len()];
            let donor = &toks[(c.a / toks.len() + c.b * 13 + 1) % toks.len()];
            let donor_text = match donor.kind {
                indep::TokKind::Str => format!("\"{}\"", donor.text.trim_matches('"')),
                _ => donor.text.clone(),
            };
            let mut out = String::new();
            out.push_str(&text[..victim.byte]);
            out.push_str(&donor_text);
            out.push(' ');
            out.push_str(&text[victim.byte..]);
            tree.insert(c.path.clone(), out.into_bytes());
        }
        "paste_spread" => {
            // a spread pasted into the wrong selection set: `...X` right below the header of a
            // fragment - half of the time of that fragment itself (a fragment cycle)
            let Ok(text) = String::from_utf8(orig.clone()) else { return false };
            let lines: Vec<&str> = text.split('\n').collect();
            let heads: Vec<(usize, String)> = lines
                .iter()
                .enumerate()
                .filter_map(|(i, l)| {
                    let t = l.trim_start();
                    let rest = t.strip_prefix("fragment ")?;
                    if !t.trim_end().ends_with('{') {
                        return None;
                    }
                    let name: String = rest.chars().take_while(|ch| ch.is_ascii_alphanumeric() || *ch == '_').collect();
                    (!name.is_empty()).then_some((i, name))
                })
                .collect();
            if heads.is_empty() {
                return false;
            }
            let (li, own) = &heads[c.a % heads.len()];
            let name = if c.b % 2 == 0 { own.clone() } else { heads[(c.a / heads.len() + c.b) % heads.len()].1.clone() };
            let mut out: Vec<String> = lines.iter().map(|l| l.to_string()).collect();
            out.insert(li + 1, format!("  ...{name}"));
            tree.insert(c.path.clone(), out.join("\n").into_bytes());
        }
        "unispace" => {
            // what an IME or a copy from a web page does: the indentation of one line becomes
            // ideographic / no-break / em spaces (not GraphQL white space)
            let Ok(text) = String::from_utf8(orig.clone()) else { return false };
            let lines: Vec<&str> = text.split('\n').collect();
            let indented: Vec<usize> = lines.iter().enumerate().filter(|(_, l)| l.starts_with([' ', '\t'])).map(|(i, _)| i).collect();
            if indented.is_empty() {
                return false;
            }
            let li = indented[c.a % indented.len()];
            let sp = ['\u{3000}', '\u{a0}', '\u{2003}'][c.b % 3];
            let n = lines[li].chars().take_while(|ch| *ch == ' ' || *ch == '\t').count();
            let new_line: String = std::iter::repeat(sp).take(n).chain(lines[li].chars().skip(n)).collect();
            let mut out: Vec<String> = lines.iter().map(|l| l.to_string()).collect();
            out[li] = new_line;
            tree.insert(c.path.clone(), out.join("\n").into_bytes());
        }
        "vanish" => {
            tree.remove(&c.path);
        }
        _ => return false,
    }
    true
}

/// Does the (corrupted) tree contain a fragment definition that no operation reaches through spreads?
/// Judged with the independent lexer; fragment names are project-unique in the workload.
fn has_uncovered_fragment(sc: &E2Scenario, tree: &Tree) -> bool {
    let mut body: BTreeMap<String, Vec<String>> = BTreeMap::new();
    let mut used: Vec<String> = Vec::new();
    for p in sc.op_inputs() {
        let Some(b) = tree.get(&p) else { continue };
        let text = String::from_utf8_lossy(b).into_owned();
        let toks = indep::lex(&text);
        let heads = indep::scan_headers(&toks);
        for (i, h) in heads.iter().enumerate() {
            let end = heads.get(i + 1).map(|n| n.tok).unwrap_or(toks.len());
            let mut spreads = Vec::new();
            let mut k = h.tok;
            while k + 1 < end.min(toks.len()) {
                if toks[k].text == "..." && toks[k + 1].kind == indep::TokKind::Name && toks[k + 1].text != "on" {
                    spreads.push(toks[k + 1].text.clone());
                }
                k += 1;
            }
            if h.keyword == "fragment" {
                if let Some(n) = &h.name {
                    body.entry(n.clone()).or_default().extend(spreads);
                }
            } else {
                used.extend(spreads);
            }
        }
    }
    let mut i = 0;
    while i < used.len() {
        let n = used[i].clone();
        i += 1;
        for s in body.get(&n).cloned().unwrap_or_default() {
            if !used.contains(&s) {
                used.push(s);
            }
        }
    }
    body.keys().any(|f| !used.contains(f))
}

/// C08 storage-fault slice on the CLI.
fn drive_c08(sc: &E2Scenario, rep: &mut RunReport) {
    let mut rn = Runner::new(sc);
    let tree0 = rn.tree0.clone();
    let h = sc.hash_seeds[0];
    for c in &sc.corruptions {
        let mut t = tree0.clone();
        let mut faults = Vec::new();
        if c.kind == "unreadable" {
            // EACCES on the first open of that file: found from a fault-free trace
            let (g, _) = rn.fresh(&["check"], "json", h, None, &[]);
            if let Some(tl) = g.trace.iter().find(|tl| tl.name == "open_r" && tl.path == c.path) {
                faults.push(Fault { k: tl.k, action: "errno".into(), arg: 13 });
            } else {
                continue;
            }
        } else if !corrupt(&mut t, c, &tree0) {
            continue;
        }
        rep.fault(&c.kind);
        let is_config = c.path == sc.project.config_path();
        rep.probe(if is_config { "corrupt_config" } else if sc.schema_inputs().contains(&c.path) { "corrupt_schema" } else { "corrupt_operation" });
        for (cmds, fmt) in [(&["check"][..], "json"), (&["generate"][..], "human"), (&["check", "generate"][..], "rdjson")] {
            sandbox::reset_tree(&t);
            let (r, _after) = rn.on_tree(cmds, fmt, h, Some(sc.readdir_seeds[0]), &faults);
            let what = format!("{} of {} (a={}, b={}) then `{}` ({fmt})", c.kind, c.path, c.a, c.b, cmds.join(" "));
            if r.trapped() {
                // root-cause classification: `check` passed, `generate` trapped, and the corrupted
                // tree contains a fragment that no operation spreads (the pinned checker does not
                // look into such a fragment, so anything may be wrong inside it)
                let after_check = r.stderr_str().contains("'check' finished");
                let editor_slip = matches!(c.kind.as_str(), "token_subst" | "token_insert" | "paste_spread");
                let class = if after_check && has_uncovered_fragment(sc, &t) {
                    "C08.K1-unchecked-unspread-fragment".to_string()
                } else if after_check && editor_slip && r.panic_site().starts_with("crates/printer/") {
                    // an editor slip produced a document that is wrong in a way the checker does not
                    // implement (checker completeness: C03 / C05, not claimed), and a printer relied
                    // on the checker: one known family, whatever the printer file
                    "C08.K2-checker-gap-after-editor-slip".to_string()
                } else if after_check && !r.panic_site().starts_with("exit:") && r.panic_site() != "cli-timeout" {
                    // `check` accepted the corrupted document and a printer then hit one of its
                    // "the checker guarantees this" expectations: classified by source file
                    let site = r.panic_site();
                    format!("trap-after-check@{}", site.rsplit_once(':').map(|x| x.0).unwrap_or(&site))
                } else {
                    format!("trap@{}", r.panic_site())
                };
                rep.violate(&["C08", "C18"], &class, format!("{what}: exit {} {}", r.exit, tail(&r.stderr_str())));
                continue;
            }
            if r.exit != 0 && r.exit != 1 {
                rep.violate(&["C08", "C18"], "C18.1-exit-status", format!("{what}: exit status {}", r.exit));
                continue;
            }
            if fmt != "human" {
                if let Err(e) = parse_output(fmt, &r) {
                    rep.violate(&["C08", "C18"], "C18.2-json-malformed", format!("{what}: {e}"));
                }
            }
        }
    }
    rep.events += rn.runs;
}

/// C13 at the CLI: diagnostics located on `#import` lines iff the reference closure has an erroneous import.
fn drive_c13(sc: &E2Scenario, rep: &mut RunReport) {
    let mut rn = Runner::new(sc);
    let (r, _) = rn.fresh(&["check"], "json", sc.hash_seeds[0], Some(sc.readdir_seeds[0]), &[]);
    rep.events += rn.runs;
    if r.trapped() {
        rep.violate(&["C13", "C18", "C08"], &format!("trap@{}", r.panic_site()), format!("exit {} {}", r.exit, tail(&r.stderr_str())));
        return;
    }
    let Ok(p) = parse_output("json", &r) else { return };
    // reference: model import lines + injected import faults (read back from the text by the independent scanner)
    let ops = sc.op_inputs();
    let texts: BTreeMap<String, String> = sc.tree.iter().cloned().collect();
    let mut bad_lines: BTreeSet<(String, usize)> = BTreeSet::new();
    let mut import_lines: BTreeSet<(String, usize)> = BTreeSet::new();
    for f in &ops {
        let text = &texts[f];
        for imp in indep::scan_imports(text) {
            import_lines.insert((f.clone(), imp.line));
            let target = indep::resolve_from_file(f, &imp.path);
            match texts.get(&target).filter(|_| ops.contains(&target)) {
                None => {
                    bad_lines.insert((f.clone(), imp.line));
                }
                Some(tt) => {
                    if let Some(names) = &imp.names {
                        let toks = indep::lex(tt);
                        let frags: Vec<String> = indep::scan_headers(&toks).into_iter().filter(|h| h.keyword == "fragment").filter_map(|h| h.name).collect();
                        if names.iter().any(|n| !frags.contains(n)) {
                            bad_lines.insert((f.clone(), imp.line));
                        }
                    }
                }
            }
        }
    }
    let on_import: Vec<&Diag> = p.diags.iter().filter(|d| d.file.as_ref().is_some_and(|f| import_lines.contains(&(indep::norm(f), d.line)))).collect();
    if bad_lines.is_empty() {
        rep.probe("cli_imports_all_resolve");
        if let Some(d) = on_import.first() {
            rep.violate(
                &["C13", "C20"],
                "C13.cli-spurious-import-error",
                format!("every #import resolves in the reference, but the CLI reports {}:{}:{} {}", d.file.as_deref().unwrap_or(""), d.line, d.col, d.message),
            );
        }
    } else {
        rep.probe("cli_erroneous_import");
        // earlier stages (schema) may fail first in projects with other faults; this class has none
        if r.exit != 1 {
            rep.violate(&["C13"], "C13.cli-import-error-missed", format!("erroneous imports at {bad_lines:?} but exit {}", r.exit));
        } else if !on_import.iter().any(|d| bad_lines.contains(&(indep::norm(d.file.as_ref().unwrap()), d.line))) {
            rep.violate(
                &["C13"],
                "C13.cli-import-error-missed",
                format!("erroneous imports at {bad_lines:?} but no diagnostic is located on one of those lines; diagnostics: {:?}", p.diags),
            );
        } else {
            // every document whose closure contains an erroneous import gets an error: for each
            // file with an erroneous line of its own, some diagnostic sits on an erroneous line of
            // that file or of a file it reaches (the resolver reports the first one it meets)
            let model: Vec<(String, Vec<crate::model::ImportLine>, Vec<String>, bool)> =
                sc.project.ops.iter().enumerate().map(|(k, f)| (sc.project.op_abs(k), f.imports.clone(), vec![], true)).collect();
            for (fi, f) in ops.iter().enumerate() {
                if !bad_lines.iter().any(|(bf, _)| bf == f) {
                    continue;
                }
                let mut reach: BTreeSet<String> = crate::e3::reference_closure(&model, fi).reach.iter().map(|r| ops[*r].clone()).collect();
                reach.insert(f.clone());
                let named = on_import.iter().any(|d| {
                    let df = indep::norm(d.file.as_ref().unwrap());
                    reach.contains(&df) && bad_lines.contains(&(df, d.line))
                });
                if !named {
                    rep.violate(
                        &["C13", "C18"],
                        "C13.cli-import-error-missed",
                        format!("{f} has an erroneous #import but no diagnostic is located on an erroneous #import line of it or of a file it imports; diagnostics: {:?}", p.diags.iter().map(|d| (d.file.clone(), d.line, d.col)).collect::<Vec<_>>()),
                    );
                    break;
                }
            }
        }
    }
}

pub fn execute(sc: &E2Scenario) -> RunReport {
    let mut rep = RunReport::default();
    if !sandbox::namespace_ok() {
        rep.violate(&[], "harness:no-namespace", "private mount namespace unavailable".into());
        return rep;
    }
    indep::set_links(&sc.project.links);
    sandbox::set_links(&sc.project.links);
    match sc.variant.as_str() {
        "c18" => drive_c18(sc, &mut rep),
        "arte" => drive_arte(sc, &mut rep),
        "c14" => drive_c14(sc, &mut rep),
        "c17" => drive_c17(sc, &mut rep),
        "c18f" => drive_c18f(sc, &mut rep),
        "c08" => drive_c08(sc, &mut rep),
        "c13" => drive_c13(sc, &mut rep),
        _ => {}
    }
    sandbox::clear_tree();
    indep::set_links(&[]);
    sandbox::set_links(&[]);
    // reach probes for the layout / input-kind dimensions of the workload
    {
        let p = &sc.project;
        if p.flags.no_config {
            rep.probe("layout:no_config_file_all_flags");
        } else if p.flags.schema || p.flags.operation || p.flags.schema_output {
            rep.probe(if p.flags.decoy { "layout:flags_override_decoy_config" } else { "layout:flags_supply_missing_keys" });
        }
        if p.introspection() {
            rep.probe("schema:introspection_json");
        }
        if p.schema.ts_type_directives {
            rep.probe("schema:ts_type_directives");
        }
        if p.config.explicit {
            rep.probe("layout:explicit_config_flag");
        }
        if p.cwd != p.root {
            rep.probe("layout:cwd_differs_from_config_dir");
        }
        if !p.links.is_empty() {
            rep.probe("layout:reached_through_symlink");
            if p.config_text().contains("../") && p.root == p.links[0].0 {
                rep.probe("layout:dotdot_leaves_the_symlink");
            }
        }
    }
    // signature = behaviour class of the run, not its identity: shape of the project and of its
    // layout, which rule violations / corruptions it carries, which fault kinds fired and which
    // probes (branches of the drivers and oracles) were reached.  Names, texts and seeds are
    // left out on purpose, so that `distinct` counts different situations, not different spellings.
    let p = &sc.project;
    let n_imports: usize = p.ops.iter().map(|f| f.imports.len()).sum();
    let mut sig = rng::fnv(&sc.variant);
    for x in [
        p.ops.len() as u64,
        p.schema_paths.len() as u64,
        n_imports.min(4) as u64,
        p.ops.iter().any(|f| f.imports.iter().any(|i| i.names.is_none())) as u64,
        p.introspection() as u64,
        p.schema.ts_type_directives as u64,
        rng::fnv(&p.mode()),
        p.config.json as u64,
        p.config.explicit as u64,
        (p.cwd != p.root) as u64,
        p.flags.no_config as u64,
        (p.flags.schema as u64) | (p.flags.operation as u64) << 1 | (p.flags.schema_output as u64) << 2 | (p.flags.decoy as u64) << 3,
        p.config.documents_globs.iter().any(|g| g.contains("..")) as u64,
        !p.config.plugins.is_empty() as u64,
        p.gen_str("schemaModuleSpecifier").is_some() as u64,
        p.gen_str("resolversOutput").is_some() as u64,
        p.gen_str("serverGraphqlOutput").is_some() as u64,
    ] {
        sig = rng::mix(sig, x);
    }
    let mut kinds: BTreeSet<String> = sc.injected.iter().map(|i| format!("i:{}", i.kind)).collect();
    kinds.extend(sc.corruptions.iter().map(|c| format!("c:{}", c.kind)));
    kinds.extend(rep.faults.keys().map(|k| format!("f:{k}")));
    kinds.extend(rep.probes.keys().map(|k| format!("p:{k}")));
    for k in &kinds {
        sig = rng::mix(sig, rng::fnv(k));
    }
    rep.signature = sig;
    rep.digest = RUN_DIGEST.with(|x| x.get());
    // non-trivial: something beyond "a valid project on a fresh tree" happened
    rep.nontrivial = !rep.faults.is_empty() || !sc.injected.is_empty() || !sc.corruptions.is_empty();
    rep.hash_seeds = sc.hash_seeds.clone();
    rep.sample = Some(json!({
        "variant": sc.variant,
        "cwd": sc.project.cwd,
        "config": sc.project.config_path(),
        "config_text": sc.project.config_text(),
        "inputs": sc.tree.iter().map(|(p, t)| json!({"path": p, "bytes": t.len()})).collect::<Vec<_>>(),
        "injected": sc.injected.iter().map(|i| json!({"file": i.file, "kind": i.kind})).collect::<Vec<_>>(),
        "faults_fired": rep.faults,
    }));
    rep
}

pub struct E2;

impl Engine for E2 {
    fn name(&self) -> &'static str {
        "e2"
    }
    fn generate(&self, run_seed: u64, variant: &str, tier: Tier) -> Value {
        serde_json::to_value(gen_scenario(run_seed, variant, tier)).unwrap()
    }
    fn execute(&self, scenario: &Value) -> RunReport {
        let sc: E2Scenario = serde_json::from_value(scenario.clone()).expect("scenario");
        execute(&sc)
    }
    fn shrink(&self, scenario: &Value) -> Vec<Value> {
        let sc: E2Scenario = serde_json::from_value(scenario.clone()).expect("scenario");
        let mut out: Vec<E2Scenario> = Vec::new();
        // fewer corruptions / injected faults / hash seeds
        for i in 0..sc.corruptions.len() {
            if sc.corruptions.len() > 1 {
                let mut s = sc.clone();
                s.corruptions = vec![sc.corruptions[i].clone()];
                out.push(s);
            }
        }
        if sc.hash_seeds.len() > 2 {
            for i in 1..sc.hash_seeds.len() {
                let mut s = sc.clone();
                s.hash_seeds = vec![sc.hash_seeds[0], sc.hash_seeds[i]];
                out.push(s);
            }
        }
        // drop an operation file that nobody imports (text-level: remove the file from the tree and the model)
        for i in (0..sc.project.ops.len()).rev() {
            if sc.project.ops.len() <= 1 {
                break;
            }
            let path = sc.project.op_abs(i);
            let imported = sc.project.ops.iter().enumerate().any(|(j, f)| j != i && f.imports.iter().any(|imp| imp.target == Some(i)));
            if imported || sc.injected.iter().any(|x| x.file == path) {
                continue;
            }
            let mut s = sc.clone();
            s.project.ops.remove(i);
            for f in s.project.ops.iter_mut() {
                for imp in f.imports.iter_mut() {
                    if let Some(t) = imp.target {
                        if t > i {
                            imp.target = Some(t - 1);
                        }
                    }
                }
            }
            s.tree.retain(|(p, _)| *p != path);
            out.push(s);
        }
        // drop extra files
        if !sc.project.extra_files.is_empty() {
            let mut s = sc.clone();
            let gone: Vec<String> = s.project.extra_files.iter().map(|(p, _)| s.project.abs(p)).collect();
            s.project.extra_files.clear();
            s.tree.retain(|(p, _)| !gone.contains(p));
            out.push(s);
        }
        out.into_iter().map(|s| serde_json::to_value(s).unwrap()).collect()
    }
}
