//! The simulated world of the CLI: a project tree on a private tmpfs at a fixed
//! absolute path (private mount namespace per worker), the CLI as a subprocess
//! under the LD_PRELOAD shim, snapshots of the tree, the shim's call trace.

use serde::{Deserialize, Serialize};
use std::collections::BTreeMap;
use std::io::{Read, Seek, SeekFrom};
use std::os::unix::io::{AsRawFd, FromRawFd};
use std::os::unix::process::{CommandExt, ExitStatusExt};
use std::path::Path;
use std::process::{Command, Stdio};
use std::sync::OnceLock;

pub const ROOT: &str = crate::project::SANDBOX;
pub const CLI_TIMEOUT_S: u64 = 25;

static NS_STATE: OnceLock<Result<(), String>> = OnceLock::new();

/// Called on the worker's main thread before anything else runs: private mount
/// namespace + tmpfs at `ROOT`, so that every worker sees byte-identical paths.
pub fn enter_namespace() -> Result<(), String> {
    NS_STATE
        .get_or_init(|| unsafe {
            let _ = std::fs::create_dir_all(ROOT);
            if libc::unshare(libc::CLONE_NEWNS) != 0 {
                return Err(format!("unshare(CLONE_NEWNS): {}", std::io::Error::last_os_error()));
            }
            let none = c"none".as_ptr();
            let slash = c"/".as_ptr();
            if libc::mount(none, slash, std::ptr::null(), libc::MS_REC | libc::MS_PRIVATE, std::ptr::null()) != 0 {
                return Err(format!("mount --make-rprivate: {}", std::io::Error::last_os_error()));
            }
            let root = std::ffi::CString::new(ROOT).unwrap();
            let opts = c"size=256m,mode=0755".as_ptr();
            if libc::mount(c"tmpfs".as_ptr(), root.as_ptr(), c"tmpfs".as_ptr(), 0, opts as *const libc::c_void) != 0 {
                return Err(format!("mount tmpfs: {}", std::io::Error::last_os_error()));
            }
            Ok(())
        })
        .clone()
}

pub fn namespace_ok() -> bool {
    matches!(NS_STATE.get(), Some(Ok(())))
}

/// Removes everything below ROOT.
pub fn clear_tree() {
    if let Ok(rd) = std::fs::read_dir(ROOT) {
        for e in rd.flatten() {
            let p = e.path();
            if p.is_dir() {
                let _ = std::fs::remove_dir_all(&p);
            } else {
                let _ = std::fs::remove_file(&p);
            }
        }
    }
}

pub type Tree = BTreeMap<String, Vec<u8>>;

pub fn write_tree(files: &Tree) {
    for (p, b) in files {
        debug_assert!(p.starts_with(ROOT));
        if let Some(parent) = Path::new(p).parent() {
            let _ = std::fs::create_dir_all(parent);
        }
        std::fs::write(p, b).expect("write tree file");
    }
}

/// Writes files the way `cp -p`, `rsync -t` or an archive restore does: with a modification
/// time from the past (seconds since the epoch) instead of "now".
pub fn write_tree_with_mtime(files: &Tree, secs: u64) {
    write_tree(files);
    for p in files.keys() {
        if let Ok(f) = std::fs::File::options().write(true).open(p) {
            let _ = f.set_modified(std::time::UNIX_EPOCH + std::time::Duration::from_secs(secs));
        }
    }
}

thread_local! {
    static TREE_LINKS: std::cell::RefCell<Vec<(String, String)>> = const { std::cell::RefCell::new(Vec::new()) };
}

/// Symbolic links (link, target) that belong to every tree of the current scenario.
pub fn set_links(links: &[(String, String)]) {
    TREE_LINKS.with(|l| *l.borrow_mut() = links.to_vec());
}

pub fn reset_tree(files: &Tree) {
    clear_tree();
    write_tree(files);
    TREE_LINKS.with(|l| {
        for (link, target) in l.borrow().iter() {
            let _ = std::fs::create_dir_all(target);
            if let Some(parent) = Path::new(link).parent() {
                let _ = std::fs::create_dir_all(parent);
            }
            std::os::unix::fs::symlink(target, link).expect("symlink");
        }
    });
}

pub fn snapshot() -> Tree {
    let mut out = Tree::new();
    fn rec(dir: &Path, out: &mut Tree) {
        let Ok(rd) = std::fs::read_dir(dir) else { return };
        for e in rd.flatten() {
            let p = e.path();
            let Ok(ft) = e.file_type() else { continue };
            if ft.is_symlink() {
                // files are recorded under their physical path only
                continue;
            }
            if ft.is_dir() {
                rec(&p, out);
            } else {
                out.insert(p.to_string_lossy().into_owned(), std::fs::read(&p).unwrap_or_default());
            }
        }
    }
    rec(Path::new(ROOT), &mut out);
    out
}

/// The directories below ROOT (physical paths; links are not followed).
pub fn snapshot_dirs() -> std::collections::BTreeSet<String> {
    let mut out = std::collections::BTreeSet::new();
    fn rec(dir: &Path, out: &mut std::collections::BTreeSet<String>) {
        let Ok(rd) = std::fs::read_dir(dir) else { return };
        for e in rd.flatten() {
            let Ok(ft) = e.file_type() else { continue };
            if ft.is_dir() {
                out.insert(e.path().to_string_lossy().into_owned());
                rec(&e.path(), out);
            }
        }
    }
    rec(Path::new(ROOT), &mut out);
    out
}

#[derive(Clone, Debug, Serialize, Deserialize, PartialEq, Eq)]
pub struct Fault {
    /// index of the tree call (0-based, in the shim's numbering)
    pub k: usize,
    /// errno | short | eintr | crash | crashafter | torncrash
    pub action: String,
    pub arg: i64,
}

#[derive(Clone, Debug, Serialize, Deserialize)]
pub struct TraceLine {
    pub k: usize,
    pub name: String,
    pub path: String,
    pub ret: i64,
    pub errno: i32,
    pub injected: Option<String>,
}

#[derive(Clone, Debug)]
pub struct CliResult {
    /// exit code, or 1000 + signal number
    pub exit: i32,
    pub stdout: Vec<u8>,
    pub stderr: Vec<u8>,
    pub trace: Vec<TraceLine>,
}

impl CliResult {
    pub fn stdout_str(&self) -> String {
        String::from_utf8_lossy(&self.stdout).into_owned()
    }
    pub fn stderr_str(&self) -> String {
        String::from_utf8_lossy(&self.stderr).into_owned()
    }
    pub fn crashed_by_shim(&self) -> bool {
        self.exit == 137
    }
    /// 101 = Rust panic, 134 / signals = abort or crash
    /// A panic inside the CLI's async task is caught by the executor and the process
    /// then leaves through the end of `main` - so a trap is recognised by the panic
    /// message as well as by the status.
    pub fn trapped(&self) -> bool {
        self.exit == 101 || self.exit == 134 || self.exit >= 1000 || self.panicked()
    }
    pub fn panicked(&self) -> bool {
        let s = self.stderr_str();
        s.contains("panicked at ")
    }
    pub fn panic_site(&self) -> String {
        if self.exit == 2000 {
            return "cli-timeout".into();
        }
        let s = self.stderr_str();
        for l in s.lines() {
            if let Some(i) = l.find("panicked at ") {
                let rest = &l[i + 12..];
                let site: String = rest.trim_end_matches(':').to_string();
                // file:line:col -> file:line
                let parts: Vec<&str> = site.split(':').collect();
                if parts.len() >= 2 {
                    // repository sources relative to the repo, dependencies relative to the registry
                    let mut file = parts[0].replace("/repo/", "");
                    if let Some(i) = file.find("/registry/src/") {
                        let rest = &file[i + 14..];
                        file = rest.split_once('/').map(|x| x.1.to_string()).unwrap_or(rest.to_string());
                    }
                    return format!("{}:{}", file, parts[1]);
                }
                return site;
            }
        }
        format!("exit:{}", self.exit)
    }
}

pub fn cli_path() -> String {
    std::env::var("NVSIM_CLI").unwrap_or("/verif/target/repo/debug/nitrogql-cli".into())
}
pub fn shim_path() -> String {
    std::env::var("NVSIM_SHIM").unwrap_or("/verif/target/shim.so".into())
}

/// Runs the CLI once.
pub fn run_cli(cwd: &str, args: &[String], hash_seed: u64, readdir_seed: Option<u64>, faults: &[Fault]) -> CliResult {
    let trace_fd = unsafe { libc::memfd_create(c"nvsim-trace".as_ptr(), 0) };
    assert!(trace_fd >= 0, "memfd_create");
    let mut cmd = Command::new(cli_path());
    cmd.args(args).current_dir(cwd).env_clear();
    cmd.env("LD_PRELOAD", shim_path())
        .env("NVSIM_ROOT", ROOT)
        .env("NVSIM_TRACE_FD", "3")
        .env("NVSIM_HASH_SEED", hash_seed.to_string())
        .env("PATH", "/usr/bin:/bin")
        .env("RUST_BACKTRACE", "0");
    if let Some(s) = readdir_seed {
        cmd.env("NVSIM_READDIR_SEED", s.to_string());
    }
    if !faults.is_empty() {
        let spec: Vec<String> = faults.iter().map(|f| format!("{}:{}:{}", f.k, f.action, f.arg)).collect();
        cmd.env("NVSIM_FAULT", spec.join(","));
    }
    cmd.stdin(Stdio::null()).stdout(Stdio::piped()).stderr(Stdio::piped());
    unsafe {
        cmd.pre_exec(move || {
            if libc::dup2(trace_fd, 3) < 0 {
                return Err(std::io::Error::last_os_error());
            }
            Ok(())
        });
    }
    // the CLI has no timers; a run that needs more than CLI_TIMEOUT_S is reported as exit 2000
    let child = cmd.spawn().expect("spawn cli");
    let pid = child.id() as i32;
    let done = std::sync::Arc::new(std::sync::atomic::AtomicBool::new(false));
    let timed_out = std::sync::Arc::new(std::sync::atomic::AtomicBool::new(false));
    let (d2, t2) = (done.clone(), timed_out.clone());
    let killer = std::thread::spawn(move || {
        let start = std::time::Instant::now();
        while !d2.load(std::sync::atomic::Ordering::SeqCst) {
            if start.elapsed().as_secs() >= CLI_TIMEOUT_S {
                t2.store(true, std::sync::atomic::Ordering::SeqCst);
                unsafe { libc::kill(pid, libc::SIGKILL) };
                return;
            }
            std::thread::park_timeout(std::time::Duration::from_millis(200));
        }
    });
    let out = child.wait_with_output().expect("wait cli");
    done.store(true, std::sync::atomic::Ordering::SeqCst);
    killer.thread().unpark();
    let _ = killer.join();
    let exit = if timed_out.load(std::sync::atomic::Ordering::SeqCst) {
        2000
    } else {
        match out.status.code() {
            Some(c) => c,
            None => 1000 + out.status.signal().unwrap_or(0),
        }
    };
    let mut f = unsafe { std::fs::File::from_raw_fd(trace_fd) };
    let mut s = String::new();
    let _ = f.seek(SeekFrom::Start(0));
    let _ = f.read_to_string(&mut s);
    let _ = f.as_raw_fd();
    let mut trace = Vec::new();
    for l in s.lines() {
        let p: Vec<&str> = l.split(' ').collect();
        if p.len() < 6 {
            continue;
        }
        // path may contain spaces only in theory; the workload has none
        trace.push(TraceLine {
            k: p[0].parse().unwrap_or(0),
            name: p[1].to_string(),
            path: p[2].to_string(),
            ret: p[3].parse().unwrap_or(0),
            errno: p[4].parse().unwrap_or(0),
            injected: if p[5] == "-" { None } else { Some(p[5].to_string()) },
        });
    }
    CliResult { exit, stdout: out.stdout, stderr: out.stderr, trace }
}
