// LD_PRELOAD shim: the simulated kernel of the nitrogql CLI process.
//
//  * getrandom()            -> bytes derived from NVSIM_HASH_SEED (std's SipHash keys)
//  * readdir64()            -> entries of each DIR* returned in an order permuted by NVSIM_READDIR_SEED
//  * open64/read/write/writev/close/mkdir/stat64/lstat64/fstatat64/statx/fstat64/opendir/readdir64
//    touching a path below NVSIM_ROOT are numbered 0,1,2,... ("tree calls");
//    NVSIM_FAULT = "k:action[:arg][,k:action...]" makes the k-th such call misbehave:
//        errno:<n>   fail with errno n, nothing done
//        short       transfer only part of the request (>=1 byte), for read/write/writev
//        eintr       fail once with EINTR (the retry is call k+1 and succeeds)
//        crash       _exit(137) instead of performing the call
//        crashafter  perform the call, then _exit(137)
//  * every tree call is appended to fd NVSIM_TRACE_FD as a line
//        <k> <name> <path-or-fd-path> <ret> <errno> <injected-action-or-->
//
// No state outside this process, no clock, no randomness of its own.
#define _GNU_SOURCE
#include <dirent.h>
#include <dlfcn.h>
#include <errno.h>
#include <fcntl.h>
#include <stdarg.h>
#include <stdint.h>
#include <stdio.h>
#include <stdlib.h>
#include <string.h>
#include <sys/stat.h>
#include <sys/syscall.h>
#include <sys/types.h>
#include <sys/uio.h>
#include <unistd.h>

#define MAXFD 4096
#define MAXFAULT 16
#define MAXDIR 64

static int inited = 0;
static int trace_fd = -1;
static char root[512];
static size_t root_len = 0;
static int have_hash = 0;
static uint64_t hash_seed = 0;
static int have_rd = 0;
static uint64_t rd_seed = 0;
static long counter = 0;
static char *fd_path[MAXFD];

struct fault { long k; char action[16]; long arg; int fired; };
static struct fault faults[MAXFAULT];
static int n_faults = 0;

struct dirstate { DIR *d; struct dirent64 **ents; int n; int pos; char *path; };
static struct dirstate dirs[MAXDIR];

static uint64_t splitmix(uint64_t *x) {
  uint64_t z = (*x += 0x9E3779B97F4A7C15ULL);
  z = (z ^ (z >> 30)) * 0xBF58476D1CE4E5B9ULL;
  z = (z ^ (z >> 27)) * 0x94D049BB133111EBULL;
  return z ^ (z >> 31);
}

static void init(void) {
  if (inited) return;
  inited = 1;
  const char *s;
  if ((s = getenv("NVSIM_TRACE_FD"))) trace_fd = atoi(s);
  if ((s = getenv("NVSIM_ROOT"))) { strncpy(root, s, sizeof(root) - 1); root_len = strlen(root); }
  if ((s = getenv("NVSIM_HASH_SEED"))) { have_hash = 1; hash_seed = strtoull(s, NULL, 10); }
  if ((s = getenv("NVSIM_READDIR_SEED"))) { have_rd = 1; rd_seed = strtoull(s, NULL, 10); }
  if ((s = getenv("NVSIM_FAULT"))) {
    char buf[512];
    strncpy(buf, s, sizeof(buf) - 1);
    buf[sizeof(buf) - 1] = 0;
    char *save = NULL;
    for (char *tok = strtok_r(buf, ",", &save); tok && n_faults < MAXFAULT; tok = strtok_r(NULL, ",", &save)) {
      struct fault *f = &faults[n_faults];
      char *c1 = strchr(tok, ':');
      if (!c1) continue;
      *c1 = 0;
      f->k = atol(tok);
      char *c2 = strchr(c1 + 1, ':');
      if (c2) { *c2 = 0; f->arg = atol(c2 + 1); }
      strncpy(f->action, c1 + 1, sizeof(f->action) - 1);
      f->fired = 0;
      n_faults++;
    }
  }
}

static void trace(long k, const char *name, const char *path, long ret, int err, const char *inj) {
  if (trace_fd < 0) return;
  char line[1024];
  int n = snprintf(line, sizeof(line), "%ld %s %s %ld %d %s\n", k, name, path ? path : "-", ret, err, inj ? inj : "-");
  if (n > (int)sizeof(line)) n = sizeof(line);
  syscall(SYS_write, trace_fd, line, (size_t)n);
}

static int in_tree(const char *path) {
  if (!root_len || !path) return 0;
  if (path[0] != '/') {
    // relative paths: resolve against the cwd
    char cwd[512];
    if (syscall(SYS_getcwd, cwd, sizeof(cwd)) < 0) return 0;
    return strncmp(cwd, root, root_len) == 0 && (cwd[root_len] == '/' || cwd[root_len] == 0);
  }
  return strncmp(path, root, root_len) == 0 && (path[root_len] == '/' || path[root_len] == 0);
}

static struct fault *fault_for(long k) {
  for (int i = 0; i < n_faults; i++)
    if (faults[i].k == k && !faults[i].fired) return &faults[i];
  return NULL;
}

static void die_crash(long k, const char *name, const char *path, const char *act) {
  trace(k, name, path, -1, 0, act);
  _exit(137);
}

#define REAL(name) static __typeof__(name) *real_##name; if (!real_##name) real_##name = dlsym(RTLD_NEXT, #name)

// ---------------------------------------------------------------- getrandom
ssize_t getrandom(void *buf, size_t len, unsigned int flags) {
  init();
  if (!have_hash) return syscall(SYS_getrandom, buf, len, flags);
  uint64_t x = hash_seed;
  unsigned char *p = buf;
  for (size_t i = 0; i < len; i += 8) {
    uint64_t v = splitmix(&x);
    size_t n = len - i < 8 ? len - i : 8;
    memcpy(p + i, &v, n);
  }
  return (ssize_t)len;
}

// ---------------------------------------------------------------- open
int open64(const char *path, int flags, ...) {
  init();
  REAL(open64);
  mode_t mode = 0;
  if (flags & (O_CREAT | O_TMPFILE)) { va_list ap; va_start(ap, flags); mode = va_arg(ap, mode_t); va_end(ap); }
  if (!in_tree(path)) return real_open64(path, flags, mode);
  long k = counter++;
  const char *nm = (flags & (O_WRONLY | O_RDWR | O_CREAT)) ? "open_w" : "open_r";
  struct fault *f = fault_for(k);
  if (f) {
    f->fired = 1;
    if (!strcmp(f->action, "crash")) die_crash(k, nm, path, "crash");
    if (!strcmp(f->action, "errno")) { trace(k, nm, path, -1, (int)f->arg, "errno"); errno = (int)f->arg; return -1; }
    if (!strcmp(f->action, "eintr")) { trace(k, nm, path, -1, EINTR, "eintr"); errno = EINTR; return -1; }
  }
  int fd = real_open64(path, flags, mode);
  int e = errno;
  if (fd >= 0 && fd < MAXFD) { free(fd_path[fd]); fd_path[fd] = strdup(path); }
  trace(k, nm, path, fd, fd < 0 ? e : 0, f && !strcmp(f->action, "crashafter") ? "crashafter" : NULL);
  if (f && !strcmp(f->action, "crashafter")) _exit(137);
  errno = e;
  return fd;
}
int open(const char *path, int flags, ...) {
  mode_t mode = 0;
  if (flags & (O_CREAT | O_TMPFILE)) { va_list ap; va_start(ap, flags); mode = va_arg(ap, mode_t); va_end(ap); }
  return open64(path, flags, mode);
}

int close(int fd) {
  init();
  REAL(close);
  if (fd >= 0 && fd < MAXFD && fd_path[fd]) {
    long k = counter++;
    struct fault *f = fault_for(k);
    if (f) {
      f->fired = 1;
      if (!strcmp(f->action, "crash")) die_crash(k, "close", fd_path[fd], "crash");
    }
    int r = real_close(fd);
    trace(k, "close", fd_path[fd], r, r < 0 ? errno : 0, f && !strcmp(f->action, "crashafter") ? "crashafter" : NULL);
    free(fd_path[fd]);
    fd_path[fd] = NULL;
    if (f && !strcmp(f->action, "crashafter")) _exit(137);
    return r;
  }
  return real_close(fd);
}

// ---------------------------------------------------------------- read / write
ssize_t read(int fd, void *buf, size_t n) {
  init();
  REAL(read);
  if (!(fd >= 0 && fd < MAXFD && fd_path[fd])) return real_read(fd, buf, n);
  long k = counter++;
  struct fault *f = fault_for(k);
  size_t want = n;
  const char *inj = NULL;
  if (f) {
    f->fired = 1;
    inj = f->action;
    if (!strcmp(f->action, "crash")) die_crash(k, "read", fd_path[fd], "crash");
    if (!strcmp(f->action, "errno")) { trace(k, "read", fd_path[fd], -1, (int)f->arg, "errno"); errno = (int)f->arg; return -1; }
    if (!strcmp(f->action, "eintr")) { trace(k, "read", fd_path[fd], -1, EINTR, "eintr"); errno = EINTR; return -1; }
    if (!strcmp(f->action, "short") && n > 1) want = 1 + (size_t)(f->arg >= 0 ? f->arg : 0) % (n - 1);
  }
  ssize_t r = real_read(fd, buf, want);
  int e = errno;
  trace(k, "read", fd_path[fd], r, r < 0 ? e : 0, inj);
  if (f && !strcmp(f->action, "crashafter")) _exit(137);
  errno = e;
  return r;
}

ssize_t write(int fd, const void *buf, size_t n) {
  init();
  REAL(write);
  if (!(fd >= 0 && fd < MAXFD && fd_path[fd])) return real_write(fd, buf, n);
  long k = counter++;
  struct fault *f = fault_for(k);
  size_t want = n;
  const char *inj = NULL;
  if (f) {
    f->fired = 1;
    inj = f->action;
    if (!strcmp(f->action, "crash")) die_crash(k, "write", fd_path[fd], "crash");
    if (!strcmp(f->action, "errno")) { trace(k, "write", fd_path[fd], -1, (int)f->arg, "errno"); errno = (int)f->arg; return -1; }
    if (!strcmp(f->action, "eintr")) { trace(k, "write", fd_path[fd], -1, EINTR, "eintr"); errno = EINTR; return -1; }
    if (!strcmp(f->action, "short") && n > 1) want = 1 + (size_t)(f->arg >= 0 ? f->arg : 0) % (n - 1);
    // a torn write: part of the data reaches the file, then the process dies
    if (!strcmp(f->action, "torncrash") && n > 1) {
      want = 1 + (size_t)(f->arg >= 0 ? f->arg : 0) % (n - 1);
      real_write(fd, buf, want);
      trace(k, "write", fd_path[fd], (long)want, 0, "torncrash");
      _exit(137);
    }
  }
  ssize_t r = real_write(fd, buf, want);
  int e = errno;
  trace(k, "write", fd_path[fd], r, r < 0 ? e : 0, inj);
  if (f && !strcmp(f->action, "crashafter")) _exit(137);
  errno = e;
  return r;
}

ssize_t writev(int fd, const struct iovec *iov, int cnt) {
  init();
  REAL(writev);
  if (!(fd >= 0 && fd < MAXFD && fd_path[fd])) return real_writev(fd, iov, cnt);
  // route through write() so that the same fault logic applies: write the first non-empty buffer
  for (int i = 0; i < cnt; i++)
    if (iov[i].iov_len) return write(fd, iov[i].iov_base, iov[i].iov_len);
  return 0;
}

// ---------------------------------------------------------------- mkdir / stat family
static int simple_fault(long k, const char *name, const char *path) {
  struct fault *f = fault_for(k);
  if (!f) return 0;
  f->fired = 1;
  if (!strcmp(f->action, "crash")) die_crash(k, name, path, "crash");
  if (!strcmp(f->action, "errno")) { trace(k, name, path, -1, (int)f->arg, "errno"); errno = (int)f->arg; return 1; }
  return 0;
}

int mkdir(const char *path, mode_t mode) {
  init();
  REAL(mkdir);
  if (!in_tree(path)) return real_mkdir(path, mode);
  long k = counter++;
  if (simple_fault(k, "mkdir", path)) return -1;
  int r = real_mkdir(path, mode);
  int e = errno;
  trace(k, "mkdir", path, r, r < 0 ? e : 0, NULL);
  errno = e;
  return r;
}

// ---------------------------------------------------------------- rename / unlink
// (the pinned CLI writes its outputs in place; an implementation that writes a temporary
// file and renames it meets its faults here)
int rename(const char *from, const char *to) {
  init();
  REAL(rename);
  if (!in_tree(to) && !in_tree(from)) return real_rename(from, to);
  long k = counter++;
  if (simple_fault(k, "rename", to)) return -1;
  int r = real_rename(from, to);
  int e = errno;
  trace(k, "rename", to, r, r < 0 ? e : 0, NULL);
  errno = e;
  return r;
}

int unlink(const char *path) {
  init();
  REAL(unlink);
  if (!in_tree(path)) return real_unlink(path);
  long k = counter++;
  if (simple_fault(k, "unlink", path)) return -1;
  int r = real_unlink(path);
  int e = errno;
  trace(k, "unlink", path, r, r < 0 ? e : 0, NULL);
  errno = e;
  return r;
}

int stat64(const char *path, struct stat64 *st) {
  init();
  REAL(stat64);
  if (!in_tree(path)) return real_stat64(path, st);
  long k = counter++;
  if (simple_fault(k, "stat", path)) return -1;
  int r = real_stat64(path, st);
  int e = errno;
  trace(k, "stat", path, r, r < 0 ? e : 0, NULL);
  errno = e;
  return r;
}

int lstat64(const char *path, struct stat64 *st) {
  init();
  REAL(lstat64);
  if (!in_tree(path)) return real_lstat64(path, st);
  long k = counter++;
  if (simple_fault(k, "lstat", path)) return -1;
  int r = real_lstat64(path, st);
  int e = errno;
  trace(k, "lstat", path, r, r < 0 ? e : 0, NULL);
  errno = e;
  return r;
}

int fstatat64(int dirfd, const char *path, struct stat64 *st, int flags) {
  init();
  REAL(fstatat64);
  if (!(path && path[0] == '/' && in_tree(path))) return real_fstatat64(dirfd, path, st, flags);
  long k = counter++;
  if (simple_fault(k, "fstatat", path)) return -1;
  int r = real_fstatat64(dirfd, path, st, flags);
  int e = errno;
  trace(k, "fstatat", path, r, r < 0 ? e : 0, NULL);
  errno = e;
  return r;
}

// glibc declares `path` nonnull, std probes statx(0, NULL, ...): hide the pointer from the optimiser
static const char *launder(const char *p) { __asm__ volatile("" : "+r"(p)); return p; }

int statx(int dirfd, const char *path_, int flags, unsigned int mask, struct statx *stx) {
  init();
  REAL(statx);
  const char *path = launder(path_);
  int fd_case = (path && path[0] == 0 && dirfd >= 0 && dirfd < MAXFD && fd_path[dirfd]);
  if (!fd_case && !(path && path[0] == '/' && in_tree(path))) return real_statx(dirfd, path, flags, mask, stx);
  const char *p = fd_case ? fd_path[dirfd] : path;
  long k = counter++;
  if (simple_fault(k, fd_case ? "fstatx" : "statx", p)) return -1;
  int r = real_statx(dirfd, path, flags, mask, stx);
  int e = errno;
  trace(k, fd_case ? "fstatx" : "statx", p, r, r < 0 ? e : 0, NULL);
  errno = e;
  return r;
}

int fstat64(int fd, struct stat64 *st) {
  init();
  REAL(fstat64);
  if (!(fd >= 0 && fd < MAXFD && fd_path[fd])) return real_fstat64(fd, st);
  long k = counter++;
  if (simple_fault(k, "fstat", fd_path[fd])) return -1;
  int r = real_fstat64(fd, st);
  int e = errno;
  trace(k, "fstat", fd_path[fd], r, r < 0 ? e : 0, NULL);
  errno = e;
  return r;
}

// ---------------------------------------------------------------- directories
static struct dirstate *dir_lookup(DIR *d) {
  for (int i = 0; i < MAXDIR; i++)
    if (dirs[i].d == d) return &dirs[i];
  return NULL;
}

DIR *opendir(const char *path) {
  init();
  REAL(opendir);
  if (!in_tree(path)) return real_opendir(path);
  long k = counter++;
  if (simple_fault(k, "opendir", path)) return NULL;
  DIR *d = real_opendir(path);
  int e = errno;
  trace(k, "opendir", path, d ? 0 : -1, d ? 0 : e, NULL);
  if (d) {
    for (int i = 0; i < MAXDIR; i++)
      if (!dirs[i].d) {
        dirs[i].d = d;
        dirs[i].ents = NULL;
        dirs[i].n = -1;
        dirs[i].pos = 0;
        dirs[i].path = strdup(path);
        break;
      }
  }
  errno = e;
  return d;
}

static int name_cmp(const void *a, const void *b) {
  return strcmp((*(struct dirent64 *const *)a)->d_name, (*(struct dirent64 *const *)b)->d_name);
}

struct dirent64 *readdir64(DIR *d) {
  init();
  REAL(readdir64);
  struct dirstate *s = dir_lookup(d);
  if (!s) return real_readdir64(d);
  long k = counter++;
  struct fault *f = fault_for(k);
  if (f) {
    f->fired = 1;
    if (!strcmp(f->action, "crash")) die_crash(k, "readdir", s->path, "crash");
    if (!strcmp(f->action, "errno")) { trace(k, "readdir", s->path, -1, (int)f->arg, "errno"); errno = (int)f->arg; return NULL; }
  }
  if (s->n < 0) {
    // slurp, sort by name (so the permutation does not depend on the kernel's order), then permute
    int cap = 16;
    s->ents = malloc(sizeof(*s->ents) * cap);
    s->n = 0;
    struct dirent64 *e;
    while ((e = real_readdir64(d))) {
      if (s->n == cap) { cap *= 2; s->ents = realloc(s->ents, sizeof(*s->ents) * cap); }
      struct dirent64 *c = malloc(sizeof(*c));
      memcpy(c, e, sizeof(*c));
      s->ents[s->n++] = c;
    }
    qsort(s->ents, s->n, sizeof(*s->ents), name_cmp);
    if (have_rd) {
      uint64_t x = rd_seed;
      for (const char *p = s->path; *p; p++) x = x * 1099511628211ULL ^ (unsigned char)*p;
      for (int i = s->n - 1; i > 0; i--) {
        int j = (int)(splitmix(&x) % (uint64_t)(i + 1));
        struct dirent64 *t = s->ents[i]; s->ents[i] = s->ents[j]; s->ents[j] = t;
      }
    }
  }
  if (s->pos < s->n) {
    struct dirent64 *e = s->ents[s->pos++];
    char pb[768];
    snprintf(pb, sizeof(pb), "%s//%s", s->path, e->d_name);
    trace(k, "readdir", pb, 0, 0, NULL);
    return e;
  }
  trace(k, "readdir_end", s->path, 0, 0, NULL);
  return NULL;
}

int closedir(DIR *d) {
  init();
  REAL(closedir);
  struct dirstate *s = dir_lookup(d);
  if (s) {
    for (int i = 0; i < s->n; i++) free(s->ents[i]);
    free(s->ents);
    free(s->path);
    memset(s, 0, sizeof(*s));
  }
  return real_closedir(d);
}
