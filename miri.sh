#!/bin/bash
# miri.sh <from> <to>: the loader ABI under Miri (Tree Borrows) on small adversarial histories,
# one process per seed, 16 at a time.  Exit 0 = no UB reported, 1 = Miri reported an error.
set -uo pipefail
from=${1:-0}; to=${2:-16}
export CARGO_NET_OFFLINE=true
export MIRIFLAGS="-Zmiri-tree-borrows -Zmiri-ignore-leaks -Zmiri-disable-isolation"
cd /verif/sim
out=/verif/out/miri; mkdir -p $out
# build once
cargo +nightly miri run --offline --target-dir /verif/target/miri -- miri-e1 0 0 >$out/build.log 2>&1 || { tail -20 $out/build.log; echo "HARNESS-ERROR: miri build failed"; exit 2; }
seq $from $((to-1)) | xargs -P 16 -I{} bash -c "cargo +nightly miri run --offline --target-dir /verif/target/miri -- miri-e1 {} \$(({}+1)) > $out/seed-{}.log 2>&1; echo \$? > $out/seed-{}.rc"
bad=0
for s in $(seq $from $((to-1))); do
  rc=$(cat $out/seed-$s.rc)
  if [ "$rc" != 0 ]; then bad=$((bad+1)); echo "MIRI seed $s rc=$rc: $(grep -E 'error: Undefined Behavior|error:' $out/seed-$s.log | head -2 | tr '\n' ' ')"; fi
done
echo "miri: seeds $from..$to, $bad with errors"
echo "{\"tool\": \"cargo +nightly miri (tree borrows, leaks ignored)\", \"histories\": $((to-from)), \"with_errors\": $bad}" > $out/summary.json
[ $bad = 0 ]
