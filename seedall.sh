#!/bin/bash
# seedall.sh: every recorded seeded change against the checks that are expected to catch it (quick tier).
# Applies each patch to /repo, runs the checks, undoes it. Do not use /repo while this runs.
cd /verif
for d in seeded/*/; do
  [ -f $d/meta.json ] || continue
  ids=$(python3 -c "import json,os;c=json.load(open('$d/meta.json'))['checks_run']['caught_by'];print(' '.join(c[:1] if os.environ.get('SEEDALL_FIRST_ONLY') else c))")
  echo "### $(basename $d) -> $ids"
  ./seedtest.sh /verif/$d/patch.diff $ids
done
git -C /repo status --short | head -3
