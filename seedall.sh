#!/bin/bash
# seedall.sh: every recorded seeded change against the checks that are expected to catch it (quick tier).
# Applies each patch to /repo, runs the checks, undoes it. Do not use /repo while this runs.
cd /verif
for d in seeded/*/; do
  ids=$(python3 -c "import json;print(' '.join(json.load(open('$d/meta.json'))['checks_run']['caught_by']))")
  echo "### $(basename $d) -> $ids"
  ./seedtest.sh /verif/$d/patch.diff $ids
done
git -C /repo status --short | head -3
