#!/bin/bash
# seedtest.sh <patch.diff> <ID> [<ID>...]: apply a seeded change to /repo, run the quick checks, undo.
# Prints one line per check: CAUGHT / missed, with the violation classes.
patch=$1; shift
cd /repo || exit 2
git diff --quiet || { echo "repo not clean"; exit 2; }
git apply "$patch" || { echo "patch does not apply"; exit 2; }
out=${SEEDTEST_OUT:-/tmp/nv-seedtest}
mkdir -p $out
for id in "$@"; do
  log=$out/$(basename $(dirname $(dirname $patch)))-$(basename $(dirname $patch))-$id.log
  (cd /verif && NVSIM_EVIDENCE_DIR=$out/ev NVSIM_OUT=$out/out timeout -k 10 ${SEEDTEST_TIMEOUT:-1500} ./check $id > $log 2>&1); rc=$?
  # (leftover workers of a check that was cut off)
  if [ $rc = 124 ] || [ $rc = 137 ]; then pgrep -f "target/sim.*/nvsim worker" | xargs -r kill -9 2>/dev/null; fi
  classes=$(grep -E "^  class=" $log | sed 's/ occurrences.*//' | tr '\n' ' ')
  if [ $rc = 1 ]; then echo "CAUGHT by $id (rc=1): $classes"; elif [ $rc = 0 ]; then echo "missed by $id (rc=0)"; elif [ $rc = 124 ] || [ $rc = 137 ]; then echo "TIMEOUT in $id (check cut off after ${SEEDTEST_TIMEOUT:-1500}s): $classes"; else echo "ERROR in $id (rc=$rc): $(tail -3 $log | tr '\n' ' ')"; fi
done
git -C /repo checkout -- . ; git -C /repo status --short | head -3
# leave binaries of the unchanged tree behind
(cd /verif && ./build.sh dev >/dev/null 2>&1; if [ -d target/sim-asan ]; then ./build.sh asan >/dev/null 2>&1; fi)
