#!/bin/bash
# /verif/check selftest [determinism|hashseed] - run through ./check so that everything is rebuilt first
set -uo pipefail
what=${1:-determinism}
case "$what" in
  determinism) exec /verif/target/sim/debug/nvsim selftest-determinism "${2:-300}";;
  hashseed) exec /verif/target/sim/debug/nvsim selftest-hashseed;;
  *) echo "unknown selftest $what" >&2; exit 2;;
esac
